//! C16 relative(path, base) is the navigation from base to path.
//!
//! Bounded exhaustive exploration: every ordered pair (p, b) of clean absolute paths with a bounded
//! number of components over a small name alphabet is fed to the real `sys::relative` and the
//! result is held against the property statement:
//!   p != b : result is relative, consists of zero or more ".." followed only by normal
//!            components, the number of ".." equals the number of components of b below the
//!            common prefix of p and b, and go_clean(b + "/" + result) == p;
//!   p == b : joining the result onto b (std `Path::join`, i.e. what a caller does with a
//!            navigation) and cleaning yields p again.
//! In addition the `PathExt::relative` method form must agree with the free function and nothing
//! may panic or return Err.
use crate::common::json::J;
use crate::common::par::*;
use crate::common::report::*;
use crate::models::go_clean::go_clean;
use rivia::prelude::*;
use std::panic::{catch_unwind, AssertUnwindSafe};
use std::sync::atomic::{AtomicU64, Ordering};

/// All clean absolute paths with at most `max_comp` components over `names`; "/" first, then by
/// number of components, then lexicographic in alphabet order.
fn enum_paths(names: &[&str], max_comp: usize) -> Vec<String> {
    let mut out = vec!["/".to_string()];
    let mut layer: Vec<Vec<usize>> = vec![vec![]];
    for _ in 0..max_comp {
        let mut next = Vec::with_capacity(layer.len() * names.len());
        for pre in &layer {
            for i in 0..names.len() {
                let mut v = pre.clone();
                v.push(i);
                next.push(v);
            }
        }
        for v in &next {
            let mut s = String::new();
            for &i in v {
                s.push('/');
                s.push_str(names[i]);
            }
            out.push(s);
        }
        layer = next;
    }
    out
}

fn comps(p: &str) -> Vec<&str> {
    p.split('/').filter(|x| !x.is_empty()).collect()
}

/// Abstract relation between the two paths (the signature class)
fn relation(p: &str, b: &str) -> String {
    let (pc, bc) = (comps(p), comps(b));
    let mut common = 0;
    while common < pc.len() && common < bc.len() && pc[common] == bc[common] {
        common += 1;
    }
    let rel = if p == b {
        "same"
    } else if common == pc.len() {
        "path-is-ancestor-of-base"
    } else if common == bc.len() {
        "base-is-ancestor-of-path"
    } else if common == 0 {
        "diverge-at-root"
    } else {
        "diverge-below-root"
    };
    let mut s = rel.to_string();
    if p == "/" {
        s.push_str(" path=root");
    }
    if b == "/" {
        s.push_str(" base=root");
    }
    s
}

/// Returns (signature, detail) when the pair violates the statement
pub fn check_pair(p: &str, b: &str) -> Option<(String, String)> {
    let rel = relation(p, b);
    let r = catch_unwind(AssertUnwindSafe(|| sys::relative(p, b)));
    let res = match r {
        Err(e) => {
            return Some((format!("relative panic [{}]", rel), format!("relative({:?}, {:?}) panicked: {}", p, b, panic_message(&e))))
        },
        Ok(Err(e)) => return Some((format!("relative Err [{}]", rel), format!("relative({:?}, {:?}) returned Err({})", p, b, e))),
        Ok(Ok(x)) => x,
    };
    let res_s = match res.to_str() {
        Some(x) => x.to_string(),
        None => return Some((format!("relative non-utf8 [{}]", rel), format!("relative({:?}, {:?}) returned non UTF-8 {:?}", p, b, res))),
    };

    // the method form is the same function
    let ext = catch_unwind(AssertUnwindSafe(|| Path::new(p).relative(b)));
    match ext {
        Ok(Ok(x)) if x == res && x.to_str() == Some(res_s.as_str()) => {},
        Ok(Ok(x)) => {
            return Some((
                format!("relative PathExt differs [{}]", rel),
                format!("Path::new({:?}).relative({:?}) = {:?} but sys::relative gives {:?}", p, b, x, res_s),
            ))
        },
        Ok(Err(e)) => {
            return Some((
                format!("relative PathExt differs [{}]", rel),
                format!("Path::new({:?}).relative({:?}) = Err({}) but sys::relative gives {:?}", p, b, e, res_s),
            ))
        },
        Err(e) => {
            return Some((
                format!("relative PathExt panic [{}]", rel),
                format!("Path::new({:?}).relative({:?}) panicked: {}", p, b, panic_message(&e)),
            ))
        },
    }

    if p == b {
        // joining the result onto b still yields p
        let joined = Path::new(b).join(&res);
        let cleaned = go_clean(&joined.to_string_lossy());
        if cleaned != p {
            return Some((
                format!("relative same-path join-differs [{}]", rel),
                format!("relative({:?}, {:?}) = {:?}; base.join(result) = {:?} cleans to {:?}, expected {:?}", p, b, res_s, joined, cleaned, p),
            ));
        }
        return None;
    }

    // p != b ------------------------------------------------------------------------------------
    if res_s.starts_with('/') {
        return Some((
            format!("relative absolute-result [{}]", rel),
            format!("relative({:?}, {:?}) = {:?} which is not a relative path", p, b, res_s),
        ));
    }
    let (pc, bc) = (comps(p), comps(b));
    let mut common = 0;
    while common < pc.len() && common < bc.len() && pc[common] == bc[common] {
        common += 1;
    }
    let want_dd = bc.len() - common;

    // shape: "..")* then normal components only
    let mut dd = 0usize;
    let mut seen_normal = false;
    if !res_s.is_empty() {
        for c in res_s.split('/') {
            if c.is_empty() || c == "." {
                return Some((
                    format!("relative shape non-normal-component [{}]", rel),
                    format!("relative({:?}, {:?}) = {:?} contains an empty or '.' component", p, b, res_s),
                ));
            }
            if c == ".." {
                if seen_normal {
                    return Some((
                        format!("relative shape dotdot-after-normal [{}]", rel),
                        format!("relative({:?}, {:?}) = {:?} has '..' after a normal component", p, b, res_s),
                    ));
                }
                dd += 1;
            } else {
                seen_normal = true;
            }
        }
    }
    let joined = format!("{}/{}", b, res_s);
    let cleaned = go_clean(&joined);
    if dd != want_dd {
        let kind = if dd < want_dd { "too-few" } else { "too-many" };
        return Some((
            format!("relative dotdot-count {} [{}]", kind, rel),
            format!(
                "relative({:?}, {:?}) = {:?} has {} '..' but base has {} components below the common prefix (clean(base/result) = {:?})",
                p, b, res_s, dd, want_dd, cleaned
            ),
        ));
    }
    if cleaned != p {
        return Some((
            format!("relative roundtrip-differs [{}]", rel),
            format!("relative({:?}, {:?}) = {:?}; go_clean({:?}) = {:?}, expected {:?}", p, b, res_s, joined, cleaned, p),
        ));
    }
    None
}

struct Counters {
    evals: AtomicU64,
    nontrivial: AtomicU64,
    same: AtomicU64,
}

fn record(p: &str, b: &str, c: &Counters) {
    c.evals.fetch_add(1, Ordering::Relaxed);
    if p == b {
        c.same.fetch_add(1, Ordering::Relaxed);
    }
    // non-trivial: the expected navigation needs both at least one ".." and at least one name
    let (pc, bc) = (comps(p), comps(b));
    let mut common = 0;
    while common < pc.len() && common < bc.len() && pc[common] == bc[common] {
        common += 1;
    }
    if bc.len() > common && pc.len() > common {
        c.nontrivial.fetch_add(1, Ordering::Relaxed);
    }
    if let Some((sig, detail)) = check_pair(p, b) {
        let (p2, b2) = (p.to_string(), b.to_string());
        vio(&sig, || detail, move || J::obj([("path", J::s(p2)), ("base", J::s(b2))]));
    }
}

/// A small real directory tree at a fixed place (so that a replay finds the same paths): `a` is a link to the
/// deeper directory `b/b`, `b/a` a link back up. create=false removes it again.
const REAL_ROOT: &str = "/dev/shm/rvmc-c16-real";
fn real_fixture(create: bool) -> String {
    let _ = std::fs::remove_dir_all(REAL_ROOT);
    if create {
        let _ = std::fs::create_dir_all(format!("{}/b/b", REAL_ROOT));
        let _ = std::os::unix::fs::symlink("b/b", format!("{}/a", REAL_ROOT));
        let _ = std::os::unix::fs::symlink("..", format!("{}/b/a", REAL_ROOT));
    }
    REAL_ROOT.to_string()
}

fn sweep(ctx: &Ctx, names: &[&str], max_comp: usize, c: &Counters) -> u64 {
    let paths = enum_paths(names, max_comp);
    let n = paths.len() as u64;
    let total = n * n;
    if total <= 200_000 {
        // small spaces sequentially: simplest witness per signature is deterministic
        for i in 0..total {
            record(&paths[(i / n) as usize], &paths[(i % n) as usize], c);
        }
    } else {
        par_for(ctx.threads, total, 8192, |_slot, i| {
            record(&paths[(i / n) as usize], &paths[(i % n) as usize], c);
        });
    }
    total
}

pub fn run(ctx: &Ctx) -> i32 {
    quiet_panics();
    if let Some(p) = &ctx.replay {
        return replay(ctx, p);
    }
    let c = Counters { evals: AtomicU64::new(0), nontrivial: AtomicU64::new(0), same: AtomicU64::new(0) };
    let mut bounds: Vec<String> = vec![];

    // the space named by the property: <= 4 components over 3 names (121 x 121 ordered pairs)
    let n3 = ["a", "b", "c"];
    let t = sweep(ctx, &n3, 4, &c);
    bounds.push(format!("<=4 components over {{a,b,c}}: {} ordered pairs", t));
    // names where one is a textual prefix of another (a / ab / aé): string-level instead of
    // component-level comparisons inside relative() only show up on such names
    let npre = ["a", "ab", "aé", "b"];
    let t = sweep(ctx, &npre, ctx.tier.pick(3, 4), &c);
    bounds.push(format!("<={} components over {{a,ab,aé,b}} (prefix-related names): {} ordered pairs", ctx.tier.pick(3, 4), t));
    // names that look like shell shorthand: relative() is lexical, it neither expands nor rejects them
    let nsh = ["a", "a~", "$x", "~"];
    let t = sweep(ctx, &nsh, 3, &c);
    bounds.push(format!("<=3 components over {{a,a~,$x,~}} (names containing '~' and '$'): {} ordered pairs", t));
    // names with dots (extensions, dot-files, '...', a trailing dot): relative() works on whole components,
    // a stem/extension helper applied to one of them shows up only on such names
    let ndot = ["a", "a.b", ".a", "a.", "...", "a.b.c"];
    let t = sweep(ctx, &ndot, 3, &c);
    bounds.push(format!("<=3 components over {{a,a.b,.a,a.,...,a.b.c}} (names containing dots): {} ordered pairs", t));
    // names that differ only in case, or only by an accent or a width variant: components are compared exactly
    let ncase = ["a", "A", "ä", "Ａ", "b"];
    let t = sweep(ctx, &ncase, 3, &c);
    bounds.push(format!("<=3 components over {{a,A,ä,Ａ,b}} (names equal up to case / accent / width): {} ordered pairs", t));
    // paths that exist on the real filesystem, some of them through links: relative() is lexical and looks at
    // nothing but its two arguments (its own documentation calls it filesystem agnostic)
    {
        let root = real_fixture(true);
        let inner = enum_paths(&["a", "b"], 3);
        let paths: Vec<String> = inner.iter().map(|x| if x == "/" { root.clone() } else { format!("{}{}", root, x) }).chain(["/".to_string(), "/dev".to_string()]).collect();
        for p in &paths {
            for b in &paths {
                record(p, b, &c);
            }
        }
        real_fixture(false);
        bounds.push(format!("{} x {} pairs of paths below a directory that exists on the real filesystem ({}: a -> b/b, b/a -> .., b/b a directory)", paths.len(), paths.len(), root));
    }
    // hidden process state: with the process inside a directory that no longer exists, relative() of two
    // absolute paths answers as before (it has no business asking for the working directory)
    {
        let before = std::env::current_dir().ok();
        let gone = format!("{}-gone", REAL_ROOT);
        let _ = std::fs::remove_dir_all(&gone);
        let entered = std::fs::create_dir_all(&gone).is_ok() && std::env::set_current_dir(&gone).is_ok() && std::fs::remove_dir(&gone).is_ok();
        if entered {
            let paths = enum_paths(&["a", "b"], 2);
            for p in &paths {
                for b in &paths {
                    record(p, b, &c);
                }
            }
            bounds.push(format!("{} x {} pairs over {{a,b}} <=2 components evaluated while the process's working directory does not exist", paths.len(), paths.len()));
        }
        let _ = std::env::set_current_dir(before.as_deref().unwrap_or(std::path::Path::new("/")));
        if !entered {
            eprintln!("machinery: C16 could not enter and remove a scratch working directory");
            return 2;
        }
    }
    // names that are not valid UTF-8 (legal on this platform): relative() works on components, never on text;
    // judged with the navigation law alone (joining the result onto base and cleaning lexically yields path)
    {
        use std::ffi::OsString;
        use std::os::unix::ffi::OsStringExt;
        let names: [&[u8]; 3] = [b"a", b"caf\xE9", b"\xFF"];
        let mut paths: Vec<Vec<u8>> = vec![b"/".to_vec()];
        for x in names {
            paths.push([b"/" as &[u8], x].concat());
            for y in names {
                paths.push([b"/" as &[u8], x, b"/", y].concat());
            }
        }
        let lex_norm = |p: &Path| -> PathBuf {
            let mut out = PathBuf::new();
            for comp in p.components() {
                match comp {
                    std::path::Component::ParentDir => {
                        out.pop();
                    },
                    std::path::Component::CurDir => {},
                    other => out.push(other.as_os_str()),
                }
            }
            out
        };
        let mut n = 0u64;
        for p in &paths {
            for b in &paths {
                n += 1;
                c.evals.fetch_add(1, Ordering::Relaxed);
                let (pp, bp) = (PathBuf::from(OsString::from_vec(p.clone())), PathBuf::from(OsString::from_vec(b.clone())));
                let r = catch_unwind(AssertUnwindSafe(|| sys::relative(&pp, &bp)));
                let bad: Option<(String, String)> = match r {
                    Err(e) => Some(("relative panic [non-UTF-8 names]".into(), format!("relative({:?}, {:?}) panicked: {}", pp, bp, panic_message(&e)))),
                    Ok(Err(e)) => Some(("relative Err [non-UTF-8 names]".into(), format!("relative({:?}, {:?}) returned Err({})", pp, bp, e))),
                    Ok(Ok(res)) => {
                        if res.is_absolute() {
                            Some(("relative absolute-result [non-UTF-8 names]".into(), format!("relative({:?}, {:?}) = {:?}", pp, bp, res)))
                        } else if lex_norm(&bp.join(&res)) != lex_norm(&pp) {
                            Some(("relative roundtrip-differs [non-UTF-8 names]".into(), format!("relative({:?}, {:?}) = {:?}; base joined with it cleans to {:?}", pp, bp, res, lex_norm(&bp.join(&res)))))
                        } else {
                            None
                        }
                    },
                };
                if let Some((sig, detail)) = bad {
                    let (p2, b2) = (p.clone(), b.clone());
                    vio(&sig, || detail, move || J::obj([("path_bytes_hex", J::s(p2.iter().map(|x| format!("{:02x}", x)).collect::<String>())), ("base_bytes_hex", J::s(b2.iter().map(|x| format!("{:02x}", x)).collect::<String>()))]));
                }
            }
        }
        bounds.push(format!("{} ordered pairs over names {{a, caf\\xE9, \\xFF}} (<=2 components, not valid UTF-8), navigation law only", n));
    }
    // long paths: the number of '..' and of kept components grows with the depth; every depth up to 64 on
    // either side, against the root, a sibling chain and a chain sharing a prefix of every length
    {
        let chain = |name: &str, d: usize| -> String { if d == 0 { "/".to_string() } else { format!("/{}", name).repeat(d) } };
        let mut t = 0u64;
        for d in 0..=64usize {
            for e in [0usize, 1, 2, 3, 8, 9, 16, 17, 33, 64] {
                let pairs = [
                    (chain("a", d), chain("b", e)),
                    (chain("a", d), chain("a", e)),
                    (format!("{}{}", chain("a", d.min(e).max(1)), chain("b", d).trim_end_matches('/')), format!("{}{}", chain("a", d.min(e).max(1)), chain("c", e).trim_end_matches('/'))),
                ];
                for (p1, p2) in pairs {
                    record(&p1, &p2, &c);
                    record(&p2, &p1, &c);
                    t += 2;
                }
            }
        }
        bounds.push(format!("long chains to depth 64 (root, sibling chain, shared prefix of every length): {} ordered pairs", t));
    }
    // the stored link target: Memfs derives readlink() with relative() from the link's directory; the link's
    // own path is handed over clean and in two unclean spellings
    {
        let names = ["a", "ab"];
        let paths = enum_paths(&names, 3);
        let mut t = 0u64;
        for l in &paths {
            if l == "/" {
                continue;
            }
            for tg in &paths {
                if tg == l {
                    continue;
                }
                let cut = l.rfind('/').unwrap();
                let (parent, name) = (if cut == 0 { "/" } else { &l[..cut] }, &l[cut + 1..]);
                for (si, larg) in [l.clone(), format!("{}/x/../{}", parent.trim_end_matches('/'), name), format!("{}/./{}/", parent.trim_end_matches('/'), name)].into_iter().enumerate() {
                    t += 1;
                    c.evals.fetch_add(1, Ordering::Relaxed);
                    let r = catch_unwind(AssertUnwindSafe(|| -> Result<String, String> {
                        let fs = Memfs::new();
                        fs.mkdir_p(parent).map_err(|e| e.to_string())?;
                        fs.symlink(&larg, tg).map_err(|e| format!("symlink: {}", e))?;
                        fs.readlink(l).map(|x| x.to_string_lossy().into_owned()).map_err(|e| format!("readlink: {}", e))
                    }));
                    let bad = match &r {
                        Ok(Ok(rel)) => rel.starts_with('/') || go_clean(&format!("{}/{}", parent, rel)) != *tg,
                        _ => true,
                    };
                    if bad {
                        let (l2, tg2, larg2) = (l.clone(), tg.clone(), larg.clone());
                        vio(
                            &format!("stored link target does not navigate from the link's directory to the target [link spelling {}]", ["clean", "dotdot", "dot+slash"][si]),
                            || format!("Memfs: symlink({:?}, {:?}) then readlink({:?}) = {:?}; clean(dir(link)/readlink) must be {:?}", larg2, tg2, l2, r, tg2),
                            || J::obj([("part", J::s("stored-link-target")), ("link", J::s(&l2)), ("link_arg", J::s(&larg2)), ("target", J::s(&tg2))]),
                        );
                    }
                }
            }
        }
        bounds.push(format!("stored link targets on Memfs: link and target over <=3 components of {{a,ab}} x 3 spellings of the link path: {} cases", t));
    }
    if ctx.tier == Tier::Thorough {
        let t = sweep(ctx, &["a", "b"], 5, &c);
        bounds.push(format!("<=5 components over {{a,b}}: {} ordered pairs", t));
        let n4 = ["a", "bb", "c.d", "é"];
        let t = sweep(ctx, &n4, 3, &c);
        bounds.push(format!("<=3 components over {{a,bb,c.d,é}}: {} ordered pairs", t));
        let t = sweep(ctx, &n3, 7, &c);
        bounds.push(format!("<=7 components over {{a,b,c}}: {} ordered pairs", t));
        let t = sweep(ctx, &["a", "b"], 9, &c);
        bounds.push(format!("<=9 components over {{a,b}}: {} ordered pairs", t));
    }
    let exhaustive_evals = c.evals.load(Ordering::Relaxed);

    // labelled sampling supplement ("random deeper pairs"): never decides alone
    let mut rng = Rng(ctx.seed ^ 0xC16);
    let mut sampled = 0u64;
    let mk = |rng: &mut Rng| {
        let k = rng.below(10);
        let mut s = String::new();
        for _ in 0..k {
            s.push('/');
            s.push_str(n3[rng.below(3) as usize]);
        }
        if s.is_empty() {
            s.push('/');
        }
        s
    };
    for _ in 0..ctx.tier.pick(20_000u64, 300_000u64) {
        let p = mk(&mut rng);
        let b = mk(&mut rng);
        sampled += 1;
        if let Some((sig, detail)) = check_pair(&p, &b) {
            vio(&sig, || detail, move || J::obj([("path", J::s(p)), ("base", J::s(b))]));
        }
    }

    let sample_pairs = [("/a/b", "/a/c"), ("/", "/a/b/c"), ("/a/b/c/a", "/"), ("/a", "/a"), ("/c/a/b/c", "/c/b/b/a"), ("/a/b", "/a/b/c/a")];
    let cov = J::obj([
        ("evaluations", J::i(exhaustive_evals)),
        ("distinct_nontrivial", J::i(c.nontrivial.load(Ordering::Relaxed))),
        ("pairs_with_path_equal_base", J::i(c.same.load(Ordering::Relaxed))),
        (
            "rule",
            J::s(
                "every ordered pair (path, base) of the listed clean absolute path sets (distinct within each listed set; the thorough sets overlap on their common sub-space and those pairs are evaluated once per set); \
                 non-trivial = base and path both have components below their common prefix, so the navigation needs '..' \
                 and names. Each pair: no panic, Ok, relative, '..'* then normal components, #'..' = components of base \
                 below the common prefix, go_clean(base/result) == path; path == base: go_clean(base.join(result)) == path; \
                 PathExt::relative identical.",
            ),
        ),
        (
            "samples",
            J::arr(sample_pairs.iter().map(|(p, b)| {
                let r = sys::relative(p, b).map(|x| x.to_string_lossy().into_owned()).unwrap_or_else(|e| format!("Err({})", e));
                J::obj([("path", J::s(p)), ("base", J::s(b)), ("relative", J::s(&r)), ("clean_base_join", J::s(go_clean(&format!("{}/{}", b, r))))])
            })),
        ),
        ("exhaustive", J::Bool(true)),
        ("bounds", J::strs(bounds.iter())),
        ("sampling_supplement_pairs", J::i(sampled)),
    ]);
    finish(ctx, Evidence {
        level: "exploration",
        coverage: cov,
        assumptions: vec![
            "go_clean (transliteration of Go path.Clean, shared model) is the cleaning used for the round trip".into(),
            "for path == base 'joining' is std Path::join (an absolute result replaces the base), the most permissive reading of the statement".into(),
            "pairs deeper than the bounds (up to 9 components) only covered by the labelled random supplement".into(),
        ],
    })
}

fn replay(ctx: &Ctx, f: &std::path::Path) -> i32 {
    let j = crate::common::json::parse(&std::fs::read_to_string(f).expect("read replay")).expect("parse replay");
    let case = j.get("case").expect("case");
    if case.get("part").and_then(|x| x.as_str()) == Some("stored-link-target") {
        let g = |k: &str| case.get(k).and_then(|x| x.as_str()).unwrap_or("").to_string();
        let (l, larg, tg) = (g("link"), g("link_arg"), g("target"));
        let cut = l.rfind('/').unwrap_or(0);
        let parent = if cut == 0 { "/".to_string() } else { l[..cut].to_string() };
        let fs = Memfs::new();
        let r = fs.mkdir_p(&parent).and_then(|_| fs.symlink(&larg, &tg)).and_then(|_| fs.readlink(&l));
        println!("replay C16 stored link target: symlink({:?}, {:?}); readlink({:?}) = {:?}", larg, tg, l, r);
        let ok = matches!(&r, Ok(rel) if !rel.is_absolute() && go_clean(&format!("{}/{}", parent, rel.to_string_lossy())) == tg);
        if ok {
            println!("holds on this case");
            return 0;
        }
        println!("VIOLATION property={} replay={}", ctx.prop, f.display());
        return 1;
    }
    if let (Some(ph), Some(bh)) = (case.get("path_bytes_hex").and_then(|x| x.as_str()), case.get("base_bytes_hex").and_then(|x| x.as_str())) {
        use std::os::unix::ffi::OsStringExt;
        let dec = |h: &str| -> PathBuf { PathBuf::from(std::ffi::OsString::from_vec((0..h.len() / 2).filter_map(|i| u8::from_str_radix(&h[2 * i..2 * i + 2], 16).ok()).collect())) };
        let (pp, bp) = (dec(ph), dec(bh));
        let r = catch_unwind(AssertUnwindSafe(|| sys::relative(&pp, &bp)));
        println!("replay C16 (non-UTF-8 names) path={:?} base={:?}: {:?}", pp, bp, r.as_ref().map(|x| x.as_ref().map_err(|e| e.to_string())).map_err(|_| "panic"));
        let norm = |p: &Path| -> PathBuf {
            let mut out = PathBuf::new();
            for comp in p.components() {
                match comp {
                    std::path::Component::ParentDir => {
                        out.pop();
                    },
                    std::path::Component::CurDir => {},
                    other => out.push(other.as_os_str()),
                }
            }
            out
        };
        let ok = matches!(&r, Ok(Ok(res)) if !res.is_absolute() && norm(&bp.join(res)) == norm(&pp));
        if ok {
            println!("holds");
            return 0;
        }
        println!("VIOLATION property={} replay={}", ctx.prop, f.display());
        return 1;
    }
    let p = case.get("path").and_then(|x| x.as_str()).expect("case.path").to_string();
    let b = case.get("base").and_then(|x| x.as_str()).expect("case.base").to_string();
    let real = p.starts_with(REAL_ROOT) || b.starts_with(REAL_ROOT);
    if real {
        real_fixture(true);
    }
    let got = catch_unwind(AssertUnwindSafe(|| sys::relative(&p, &b)));
    let got_s = match &got {
        Ok(Ok(x)) => format!("Ok({:?})", x),
        Ok(Err(e)) => format!("Err({})", e),
        Err(e) => format!("panic: {}", panic_message(e)),
    };
    println!("replay C16 path={:?} base={:?}", p, b);
    println!("  observed : relative(path, base) = {}", got_s);
    println!("  expected : {:?} (reference navigation; any result satisfying the statement is accepted)", crate::models::tree::ref_relative(&p, &b));
    let mut verdict = check_pair(&p, &b);
    if real {
        real_fixture(false);
    }
    if verdict.is_none() {
        // once more from a working directory that does not exist any more (the sweep does that too)
        let before = std::env::current_dir().ok();
        let gone = format!("{}-gone", REAL_ROOT);
        let _ = std::fs::remove_dir_all(&gone);
        if std::fs::create_dir_all(&gone).is_ok() && std::env::set_current_dir(&gone).is_ok() && std::fs::remove_dir(&gone).is_ok() {
            verdict = check_pair(&p, &b);
            if verdict.is_some() {
                println!("  (with the process's working directory removed)");
            }
        }
        let _ = std::env::set_current_dir(before.as_deref().unwrap_or(std::path::Path::new("/")));
    }
    match verdict {
        Some((sig, detail)) => {
            println!("{}\n  signature: {}", detail, sig);
            println!("VIOLATION property={} replay={}", ctx.prop, f.display());
            1
        },
        None => {
            println!("holds");
            0
        },
    }
}

//! C01 Memfs behaves as a tree filesystem for every operation history (engine E1 + RefFs), and the
//! shared alphabets / configurations also used by C03, C13 and C20.
use crate::common::json::{self, J};
use crate::common::par::*;
use crate::common::report::*;
use crate::engines::space::*;
use crate::models::ops::*;
use crate::models::reffs::{self, arg_class, compare, compare_query, Pred, RState};
use crate::models::tree::namespace;
use rivia::prelude::*;
use std::sync::atomic::{AtomicU64, Ordering};
use std::sync::Mutex;

fn s(x: &str) -> String {
    x.to_string()
}

/// structure alphabet over names {a,b}, depth <= 2
pub fn ops_structure(with_spellings: bool) -> Vec<Op> {
    let ns = namespace(&["a", "b"], 2);
    let mut ops = vec![];
    for p in &ns {
        ops.push(Op::Mkfile(p.clone()));
        ops.push(Op::MkdirP(p.clone()));
        ops.push(Op::WriteAll(p.clone(), b"x".to_vec()));
        ops.push(Op::AppendAll(p.clone(), b"y".to_vec()));
        ops.push(Op::Remove(p.clone()));
        ops.push(Op::RemoveAll(p.clone()));
    }
    for p in ["/a", "/a/b", "/b/a"] {
        ops.push(Op::MkdirM(s(p), 0o700));
    }
    for a in &ns {
        for b in &ns {
            if a != b {
                ops.push(Op::MoveP(a.clone(), b.clone()));
                ops.push(Op::Copy(a.clone(), b.clone()));
            }
        }
        for t in ["/a", "/b/a", "/zz"] {
            if a != t {
                ops.push(Op::Symlink(a.clone(), s(t)));
            }
        }
    }
    for p in ["/", "/a", "/b", "/a/a"] {
        ops.push(Op::SetCwd(s(p)));
    }
    if with_spellings {
        ops.extend(spelled_ops());
    }
    ops
}

/// calls with relative / unclean / prefixed spellings of their arguments
pub fn spelled_ops() -> Vec<Op> {
    vec![
        Op::Mkfile(s("a")),
        Op::Mkfile(s("./b")),
        Op::Mkfile(s("b/a")),
        Op::Mkfile(s("/a//b")),
        Op::Mkfile(s("file:///b")),
        Op::MkdirP(s("a/b")),
        Op::MkdirP(s("../b")),
        Op::MkdirP(s("/a/./a/")),
        Op::WriteAll(s("a/"), b"x".to_vec()),
        Op::WriteAll(s("/b/../a"), b"x".to_vec()),
        Op::AppendAll(s("./a"), b"y".to_vec()),
        Op::Remove(s("b//")),
        Op::Remove(s("a")),
        Op::RemoveAll(s("/a/../b")),
        Op::RemoveAll(s("a")),
        Op::MoveP(s("a"), s("b")),
        Op::MoveP(s("./a"), s("/b/")),
        Op::Copy(s("a"), s("/b/./b")),
        Op::Copy(s("/a/"), s("b")),
        Op::Symlink(s("b"), s("a")),
        Op::Symlink(s("/a/b"), s("../b")),
        Op::Symlink(s("/b"), s("./a/a")),
        Op::SetCwd(s("..")),
        Op::SetCwd(s("a")),
        Op::SetCwd(s("./b/")),
    ]
}

/// metadata alphabet over {/a, /a/a, /a/b}
pub fn ops_metadata() -> Vec<Op> {
    let ps = ["/a", "/a/a", "/a/b"];
    let modes = [0o644, 0o600, 0o755, 0o700, 0o444];
    let mut ops = vec![];
    for p in ps {
        ops.push(Op::Mkfile(s(p)));
        ops.push(Op::MkdirP(s(p)));
        ops.push(Op::RemoveAll(s(p)));
        for m in modes {
            ops.push(Op::Chmod(s(p), m));
        }
        ops.push(Op::MkdirM(s(p), 0o700));
        ops.push(Op::MkdirM(s(p), 0o755));
        // a mode without owner write/search: every component the call creates carries exactly this mode
        ops.push(Op::MkdirM(s(p), 0o550));
        ops.push(Op::MkfileM(s(p), 0o600));
        ops.push(Op::MkfileM(s(p), 0o755));
        ops.push(Op::Chown(s(p), 5, 6));
        ops.push(Op::Chown(s(p), 1000, 1000));
        ops.push(Op::Symlink(s(p), s("/a")));
    }
    for (a, b) in [("/a/a", "/a/b"), ("/a/b", "/a/a"), ("/a", "/b"), ("/a/a", "/b")] {
        ops.push(Op::Copy(s(a), s(b)));
        ops.push(Op::CopyB(s(a), s(b), CopyMode::All(0o700), false));
        ops.push(Op::CopyB(s(a), s(b), CopyMode::Dirs(0o711), false));
        ops.push(Op::CopyB(s(a), s(b), CopyMode::Files(0o640), false));
        ops.push(Op::MoveP(s(a), s(b)));
    }
    ops.push(Op::RemoveAll(s("/b")));
    ops
}

/// content alphabet over two files
pub fn ops_content() -> Vec<Op> {
    let mut ops = vec![];
    let datas: Vec<Vec<u8>> = vec![b"".to_vec(), "é".as_bytes().to_vec(), b"\n".to_vec(), vec![0xFF]];
    for p in ["/a", "/b"] {
        for d in &datas {
            ops.push(Op::WriteAll(s(p), d.clone()));
            ops.push(Op::AppendAll(s(p), d.clone()));
        }
        ops.push(Op::WriteLines(s(p), vec![s("a")]));
        ops.push(Op::AppendLines(s(p), vec![s("b")]));
        ops.push(Op::AppendLine(s(p), s("c")));
        ops.push(Op::WriteHandle(s(p), vec![b"h".to_vec(), b"i".to_vec()], vec![true, false]));
        ops.push(Op::AppendHandle(s(p), vec![b"j".to_vec()], vec![false]));
        ops.push(Op::Remove(s(p)));
        ops.push(Op::Mkfile(s(p)));
    }
    ops.push(Op::Copy(s("/a"), s("/b")));
    ops.push(Op::Copy(s("/b"), s("/a")));
    ops.push(Op::MoveP(s("/a"), s("/b")));
    ops.push(Op::MoveP(s("/b"), s("/a")));
    ops
}

/// mixed alphabet over the one-name chain /a, /a/a, /a/a/a
pub fn ops_chain() -> Vec<Op> {
    let ns = [s("/a"), s("/a/a"), s("/a/a/a")];
    let mut ops = vec![];
    for p in &ns {
        ops.push(Op::Mkfile(p.clone()));
        ops.push(Op::MkdirP(p.clone()));
        ops.push(Op::MkdirM(p.clone(), 0o700));
        ops.push(Op::WriteAll(p.clone(), b"x".to_vec()));
        ops.push(Op::AppendAll(p.clone(), b"y".to_vec()));
        ops.push(Op::Remove(p.clone()));
        ops.push(Op::RemoveAll(p.clone()));
        ops.push(Op::Chmod(p.clone(), 0o600));
        ops.push(Op::Chmod(p.clone(), 0o755));
        ops.push(Op::Chown(p.clone(), 7, 8));
        ops.push(Op::SetCwd(p.clone()));
        for q in &ns {
            if p != q {
                ops.push(Op::MoveP(p.clone(), q.clone()));
                ops.push(Op::Copy(p.clone(), q.clone()));
                ops.push(Op::Symlink(p.clone(), q.clone()));
            }
        }
    }
    ops.push(Op::Mkfile(s("a")));
    ops.push(Op::MkdirP(s("a/a")));
    ops.push(Op::Remove(s("a")));
    ops.push(Op::MoveP(s("a"), s("../a")));
    ops.push(Op::SetCwd(s("..")));
    ops.push(Op::SetCwd(s("/")));
    // two and three leading '..' from a cwd two and three levels deep
    ops.push(Op::SetCwd(s("../..")));
    ops.push(Op::Mkfile(s("../../a")));
    ops.push(Op::MkdirP(s("../../../a/a")));
    ops.push(Op::Remove(s("../../a")));
    ops
}

/// C03 widening: arguments through links, above the root, the root itself, empty paths, ...
pub fn ops_hostile() -> Vec<Op> {
    let mut ops = vec![
        Op::Symlink(s("/b"), s("/a")), // then /b/x walks through a link
        Op::Mkfile(s("/b/a")),
        Op::MkdirP(s("/b/b")),
        Op::WriteAll(s("/b/a"), b"x".to_vec()),
        Op::Remove(s("/b/a")),
        Op::RemoveAll(s("/b/b")),
        Op::MoveP(s("/a/a"), s("/b/b")),
        Op::MoveP(s("/b/a"), s("/a/b")),
        Op::Copy(s("/a"), s("/b")),
        Op::Copy(s("/b"), s("/a/b")),
        Op::Symlink(s("/b/b"), s("/a")),
        Op::SetCwd(s("/b")),
        Op::SetCwd(s("/b/a")),
        // above the root / the root itself / empty
        Op::Mkfile(s("/..")),
        Op::Mkfile(s("../../a")),
        Op::Mkfile(s("")),
        Op::Mkfile(s("/")),
        Op::MkdirP(s("")),
        Op::MkdirP(s("/../b")),
        Op::WriteAll(s("/"), b"x".to_vec()),
        Op::AppendAll(s(""), b"y".to_vec()),
        // handles opened on the root, on a directory and on nothing
        Op::WriteHandle(s("/"), vec![b"r".to_vec()], vec![true]),
        Op::AppendHandle(s("/.."), vec![b"r".to_vec()], vec![false]),
        Op::WriteHandle(s("/a"), vec![], vec![]),
        Op::WriteHandle(s(""), vec![b"r".to_vec()], vec![false]),
        Op::MkfileM(s("/"), 0o600),
        Op::WriteLines(s("/"), vec![s("r")]),
        Op::AppendLine(s("/"), s("r")),
        Op::Remove(s("/")),
        Op::Remove(s("")),
        Op::RemoveAll(s("/")),
        Op::RemoveAll(s("..")),
        Op::MoveP(s("/"), s("/a")),
        Op::MoveP(s("/a"), s("/")),
        Op::MoveP(s("/a"), s("")),
        Op::MoveP(s(""), s("/a")),
        Op::Copy(s("/"), s("/a")),
        Op::Copy(s("/a"), s("/")),
        Op::Copy(s("/a"), s("")),
        Op::Symlink(s("/"), s("/a")),
        Op::Symlink(s("/a"), s("/")),
        Op::Symlink(s("/a/a"), s("")),
        Op::Symlink(s(""), s("/a")),
        Op::Symlink(s("/a"), s("/a")),
        Op::SetCwd(s("")),
        Op::SetCwd(s("../..")),
        // relative calls (meaningful after the cwd itself was removed)
        Op::Mkfile(s("b")),
        Op::MkdirP(s("b/a")),
        Op::Remove(s(".")),
        Op::RemoveAll(s(".")),
        Op::MoveP(s("."), s("/b")),
        Op::Symlink(s("b"), s(".")),
        Op::Chmod(s("/b"), 0o600),
    ];
    ops.push(Op::CopyB(s("/b"), s("/a/b"), CopyMode::None, true));
    ops.push(Op::CopyB(s("/a"), s("/b"), CopyMode::All(0o700), true));
    ops
}

pub fn base_cfg(name: &str, ops: Vec<Op>, max_entries: usize, max_depth: usize) -> SpaceCfg {
    SpaceCfg { name: s(name), ops, max_entries, max_depth, max_content: 2, inits: vec![(s("fresh"), vec![])], max_states: 4_000_000, hang_secs: 20 }
}

/// named configurations (the name is what a replay file refers to)
pub fn config_by_name(name: &str) -> Option<SpaceCfg> {
    let n: usize = name.rsplit('-').next().and_then(|x| x.parse().ok()).unwrap_or(3);
    Some(match name.split('-').next().unwrap_or("") {
        "A" => base_cfg(name, ops_structure(true), n, 2),
        "Aplain" => base_cfg(name, ops_structure(false), n, 2),
        // same structure alphabet over the names {a, ab}: one name is a string prefix of the other, so
        // string-level (instead of component-level) path comparisons inside rivia become visible
        "Ap" => base_cfg(name, ops_structure(true).iter().map(prefix_names).collect(), n, 2),
        // the names {a, a.b}: the stem of one name is the other name, so a stem/extension helper used where the
        // whole final component is meant (name vs base) makes two different entries collide
        "Ad" => base_cfg(name, ops_structure(true).iter().map(dotted_names).collect(), n, 2),
        // replacing moves and copies between two populated trees: starts from states the entry bound of the
        // other configurations cannot hold (a directory with contents moved onto an existing empty
        // directory of the same name inside another directory), over a small alphabet
        "M" => {
            let mut c = base_cfg(name, ops_replace(), n, 3);
            c.inits = vec![
                (s("fresh"), vec![]),
                (s("two trees: /a/{a/,b} and /b/a/"), vec![Op::MkdirP(s("/a/a")), Op::WriteAll(s("/a/b"), b"x".to_vec()), Op::MkdirP(s("/b/a"))]),
                (s("two trees: /a/a/a and /b/a (file)"), vec![Op::MkdirP(s("/a/a")), Op::WriteAll(s("/a/a/a"), b"y".to_vec()), Op::MkdirP(s("/b")), Op::WriteAll(s("/b/a"), b"z".to_vec())]),
            ];
            c
        },
        "B" => {
            let mut c = base_cfg(name, ops_content(), n, 1);
            c.max_content = 3;
            c
        },
        "C" => base_cfg(name, ops_metadata(), n, 2),
        "D" => base_cfg(name, ops_chain(), n, 3),
        "H" => {
            let mut ops = ops_structure(true);
            ops.extend(ops_hostile());
            base_cfg(name, ops, n, 2)
        },
        "R" => {
            // root metadata and owner changes combined with structure (kept small: they multiply states)
            let mut ops = ops_structure(false);
            ops.extend([Op::Chmod(s("/"), 0o700), Op::Chown(s("/"), 1, 2), Op::Chown(s("/b/a"), 3, 4), Op::Chmod(s("/a"), 0o500)]);
            base_cfg(name, ops, n, 2)
        },
        _ => return None,
    })
}

/// moves, copies and removals between the two top-level trees /a and /b (configuration M)
pub fn ops_replace() -> Vec<Op> {
    vec![
        Op::MoveP(s("/a"), s("/b")),
        Op::MoveP(s("/b"), s("/a")),
        Op::MoveP(s("/a/a"), s("/b")),
        Op::MoveP(s("/a/a"), s("/b/a")),
        Op::MoveP(s("/a/b"), s("/b/a")),
        Op::MoveP(s("/b/a"), s("/a")),
        Op::MoveP(s("/a"), s("/b/a")),
        Op::Copy(s("/a"), s("/b")),
        Op::Copy(s("/b/a"), s("/a/a")),
        Op::Remove(s("/b/a")),
        Op::RemoveAll(s("/b/a")),
        Op::RemoveAll(s("/a")),
        Op::MkdirP(s("/b/a")),
        Op::Mkfile(s("/b/a/b")),
        Op::Symlink(s("/b/b"), s("/a")),
        Op::WriteAll(s("/a/b"), b"w".to_vec()),
    ]
}

/// rename b -> a.b in every path argument
pub fn dotted_names(op: &Op) -> Op {
    op.map_paths(|p, _| p.replace('b', "a.b"))
}

/// rename b -> ab in every path argument
pub fn prefix_names(op: &Op) -> Op {
    op.map_paths(|p, _| p.replace('b', "ab"))
}

pub fn query_ops() -> Vec<Op> {
    let mut paths: Vec<String> = namespace(&["a", "b"], 2);
    for p in ["/", "/zz", "/a/a/a", "a", "./b", "..", "../..", "../../a", "/a/../b", "b/", "a/a", "/a//a"] {
        paths.push(s(p));
    }
    let mut q = vec![Op::Cwd, Op::Root];
    for p in paths {
        q.extend([
            Op::Exists(p.clone()),
            Op::IsDir(p.clone()),
            Op::IsFile(p.clone()),
            Op::IsSymlink(p.clone()),
            Op::IsSymlinkDir(p.clone()),
            Op::IsSymlinkFile(p.clone()),
            Op::IsExec(p.clone()),
            Op::IsReadonly(p.clone()),
            Op::Mode(p.clone()),
            Op::Uid(p.clone()),
            Op::Gid(p.clone()),
            Op::Owner(p.clone()),
            Op::ReadAll(p.clone()),
            Op::Read(p.clone()),
            Op::ReadLines(p.clone()),
            Op::Readlink(p.clone()),
            Op::ReadlinkAbs(p.clone()),
            Op::Entry(p.clone()),
            Op::Paths(p.clone()),
            Op::Dirs(p.clone()),
            Op::Files(p.clone()),
            Op::AllPaths(p.clone()),
            Op::AllDirs(p.clone()),
            Op::AllFiles(p.clone()),
            Op::Abs(p.clone()),
        ]);
    }
    q
}

/// calls for which the statement promises "a reported failure leaves the tree exactly as it was"
fn single_target(op: &Op) -> bool {
    matches!(
        op,
        Op::Mkfile(..) | Op::MkdirP(..) | Op::MkdirM(..) | Op::WriteAll(..) | Op::AppendAll(..) | Op::Remove(..) | Op::MoveP(..) | Op::Symlink(..) | Op::SetCwd(..)
    )
}

pub struct C01Obs {
    pub queries: Vec<Op>,
    pub queries_prefix_names: Vec<Op>,
    pub queries_dotted_names: Vec<Op>,
    pub compared: AtomicU64,
    pub skipped: AtomicU64,
    pub queries_run: AtomicU64,
    pub queries_compared: AtomicU64,
    pub samples: Mutex<Vec<J>>,
}

impl C01Obs {
    pub fn new() -> C01Obs {
        C01Obs {
            queries: query_ops(),
            queries_prefix_names: query_ops().iter().map(prefix_names).collect(),
            queries_dotted_names: query_ops().iter().map(dotted_names).collect(),
            compared: AtomicU64::new(0),
            skipped: AtomicU64::new(0),
            queries_run: AtomicU64::new(0),
            queries_compared: AtomicU64::new(0),
            samples: Mutex::new(vec![]),
        }
    }
}

impl Observer for C01Obs {
    fn transition(&self, t: &Trans) {
        let pre = match t.pre_abs {
            Ok(p) => p,
            Err(_) => return,
        };
        // model-free rule: a failed single-target call leaves the complete state untouched
        if !t.out.ok && single_target(t.op) && t.post_dump != t.pre_dump {
            let sig = format!("C01 {} failed-but-changed-state [{}]", t.op.name(), arg_class(pre, t.op));
            vio(
                &sig,
                || format!("after [{}] the call {} failed with {} but the state changed (model-free rule)", t.space.history_text(t.pre_idx), t.op.render(), t.out.brief()),
                || t.space.case_json(t.pre_idx, Some(t.op_idx)),
            );
        }
        let pred = reffs::step(pre, t.op);
        if let Pred::Skip(_) = pred {
            self.skipped.fetch_add(1, Ordering::Relaxed);
            if t.out.panicked() {
                let sig = format!("C01 {} panic [{}]", t.op.name(), arg_class(pre, t.op));
                vio(&sig, || format!("after [{}] the call {} panicked: {}", t.space.history_text(t.pre_idx), t.op.render(), t.out.msg), || t.space.case_json(t.pre_idx, Some(t.op_idx)));
            }
            return;
        }
        self.compared.fetch_add(1, Ordering::Relaxed);
        if let Some((class, detail)) = compare(&pred, t.out, pre, t.post_abs) {
            let sig = format!("C01 {} {} [{}]", t.op.name(), class, arg_class(pre, t.op));
            vio(
                &sig,
                || format!("after [{}] (tree: {}; cwd {}) the call {} returned {}: {}", t.space.history_text(t.pre_idx), pre.tree.render(), pre.cwd, t.op.render(), t.out.brief(), detail),
                || t.space.case_json(t.pre_idx, Some(t.op_idx)),
            );
        }
    }

    fn state(&self, sv: &StateView) {
        let st = match sv.abs {
            Ok(p) => p,
            Err(_) => return,
        };
        if sv.idx % 997 == 3 {
            let mut sm = self.samples.lock().unwrap();
            if sm.len() < 5 {
                sm.push(J::obj([("history", J::s(sv.space.history_text(sv.idx))), ("tree", J::s(st.tree.render())), ("cwd", J::s(&st.cwd))]));
            }
        }
        let queries = if sv.space.cfg.name.starts_with("Ap-") {
            &self.queries_prefix_names
        } else if sv.space.cfg.name.starts_with("Ad-") {
            &self.queries_dotted_names
        } else {
            &self.queries
        };
        for q in queries {
            let out = apply(sv.fs, q);
            self.queries_run.fetch_add(1, Ordering::Relaxed);
            let pred = reffs::query(st, q);
            if pred != reffs::QPred::Any {
                self.queries_compared.fetch_add(1, Ordering::Relaxed);
            }
            if let Some((class, detail)) = compare_query(&pred, &out) {
                let sig = format!("C01 query {} {} [{}]", q.name(), class, arg_class(st, q));
                vio(
                    &sig,
                    || format!("in the state after [{}] (tree: {}; cwd {}) {}: {}", sv.space.history_text(sv.idx), st.tree.render(), st.cwd, q.render(), detail),
                    || {
                        let mut c = sv.space.case_json(sv.idx, None);
                        c.set("query", J::s(q.render()));
                        c
                    },
                );
            }
        }
    }
}

pub fn stats_json(name: &str, st: &SpaceStats) -> J {
    J::obj([
        ("config", J::s(name)),
        ("states", J::i(st.states)),
        ("expanded_states", J::i(st.expanded)),
        ("successors_beyond_bound_checked_not_expanded", J::i(st.cut_states)),
        ("transitions", J::i(st.transitions)),
        ("failed_calls", J::i(st.failed_calls)),
        ("malformed_successors_not_expanded", J::i(st.malformed_successors)),
        ("order_dependent_cuts", J::i(st.order_dependent_cuts)),
        ("bfs_levels", J::i(st.levels)),
        ("fixpoint_reached", J::Bool(!st.capped)),
    ])
}

pub fn tier_configs(tier: Tier) -> Vec<&'static str> {
    match tier {
        Tier::Quick => vec!["A-3", "Ap-2", "Ad-2", "M-5", "C-2", "B-2", "D-3"],
        Tier::Thorough => vec!["A-4", "Ap-3", "Ad-3", "M-8", "C-3", "B-2", "D-3"],
    }
}

pub fn run(ctx: &Ctx) -> i32 {
    quiet_panics();
    HANG_REPORT.set_prop(&ctx.prop);
    if let Some(p) = &ctx.replay {
        return replay(ctx, p);
    }
    let obs = C01Obs::new();
    let mut per_cfg = vec![];
    let (mut states, mut trans) = (0u64, 0u64);
    let mut all_fix = true;
    for name in tier_configs(ctx.tier) {
        let cfg = config_by_name(name).unwrap();
        let st = explore(&cfg, ctx.threads, &obs);
        println!("  config {}: {} states, {} transitions, {} cut, {} malformed successors, fixpoint={}", name, st.states, st.transitions, st.cut_states, st.malformed_successors, !st.capped);
        states += st.states;
        trans += st.transitions;
        all_fix &= !st.capped;
        per_cfg.push(stats_json(name, &st));
    }
    // ---- a chain far deeper than the explored namespaces: remove_all and the listings reach the bottom
    crate::models::deep::report_main("removal", crate::models::deep::removal("memfs", &rivia::prelude::Memfs::new(), "/e"));
    crate::models::deep::report_main("traversal", crate::models::deep::traversal("memfs", &rivia::prelude::Memfs::new(), "/e"));
    // ---- labelled sampling supplement (never decides alone): long seeded random histories over a
    // larger namespace ({a,b,c}, depth 3), every step compared with RefFs like the exhaustive part
    let (walks, walk_steps) = random_walks(ctx);
    let cov = J::obj([
        ("sampling_supplement_random_walks", J::i(walks)),
        ("sampling_supplement_random_walk_steps", J::i(walk_steps)),
        ("states", J::i(states)),
        ("transitions", J::i(trans)),
        ("traces_validated_against_impl", J::i(trans)),
        ("samples", J::Arr(obs.samples.lock().unwrap().clone())),
        ("transitions_compared_with_reffs", J::i(obs.compared.load(Ordering::Relaxed))),
        ("transitions_outside_reference_domain", J::i(obs.skipped.load(Ordering::Relaxed))),
        ("queries_evaluated", J::i(obs.queries_run.load(Ordering::Relaxed))),
        ("queries_compared_with_reffs", J::i(obs.queries_compared.load(Ordering::Relaxed))),
        ("configurations", J::Arr(per_cfg)),
        ("exhaustive", J::Bool(all_fix)),
        ("explanation", J::s("reachability fixpoint of the real Memfs from Memfs::new() under each configuration's call alphabet; every (state, call) executed on a deep clone and compared with RefFs through the abstraction function; every query method x namespace path evaluated in every state")),
    ]);
    finish(ctx, Evidence {
        level: "model_checking",
        coverage: cov,
        assumptions: vec![
            "states with more entries / deeper paths than the configuration bound are checked as successors but not expanded".into(),
            "RefFs transcribes the trait documentation; where it is silent both outcomes are accepted (DESIGN appendix A)".into(),
            "arguments that walk through a link, mode 0 and copy collisions are outside the compared domain (still executed; C03/C09/C11 cover them)".into(),
            "state identity = 128-bit hash of the complete canonical dump".into(),
        ],
    })
}

fn random_op(rng: &mut Rng, ns: &[String]) -> Op {
    let p = |rng: &mut Rng| ns[rng.below(ns.len() as u64) as usize].clone();
    let data = [b"x".to_vec(), b"".to_vec(), "é\n".as_bytes().to_vec(), b"yy".to_vec()];
    match rng.below(16) {
        0 => Op::Mkfile(p(rng)),
        1 => Op::MkdirP(p(rng)),
        2 => Op::MkdirM(p(rng), 0o700),
        3 => Op::WriteAll(p(rng), data[rng.below(4) as usize].clone()),
        4 => Op::AppendAll(p(rng), data[rng.below(4) as usize].clone()),
        5 => Op::Remove(p(rng)),
        6 => Op::RemoveAll(p(rng)),
        7 | 8 => Op::MoveP(p(rng), p(rng)),
        9 | 10 => Op::Copy(p(rng), p(rng)),
        11 => Op::Symlink(p(rng), p(rng)),
        12 => Op::SetCwd(p(rng)),
        13 => Op::Chmod(p(rng), [0o600, 0o755, 0o640][rng.below(3) as usize]),
        14 => Op::Chown(p(rng), 5 + rng.below(2) as u32, 7),
        _ => Op::MkfileM(p(rng), 0o640),
    }
}

fn random_walks(ctx: &Ctx) -> (u64, u64) {
    let mut ns = namespace(&["a", "b", "c"], 3);
    ns.extend(["a", "./b", "../c", "b/c", "/a//b", "/zz"].iter().map(|x| x.to_string()));
    let walks = ctx.tier.pick(48u64, 3200u64);
    let steps = AtomicU64::new(0);
    par_for(ctx.threads, walks, 1, |_slot, wi| {
        let mut rng = Rng(ctx.seed ^ (0xC01 * (wi + 1)));
        let fs = Memfs::new();
        let mut hist: Vec<String> = vec![];
        for _ in 0..300 {
            let op = random_op(&mut rng, &ns);
            let d0 = fs.verif_dump();
            let pre = match abs_of(&d0) {
                Ok(p) => p,
                Err(_) => break,
            };
            let pred = reffs::step(&pre, &op);
            let out = apply(&fs, &op);
            hist.push(op.render());
            steps.fetch_add(1, Ordering::Relaxed);
            let d1 = fs.verif_dump();
            let broken = crate::models::invariants::check(&d1);
            let post = if broken.is_empty() { abs_of(&d1) } else { Err(broken[0].1.clone()) };
            if !out.ok && single_target(&op) && d1 != d0 {
                let sig = format!("C01 {} failed-but-changed-state [{}]", op.name(), arg_class(&pre, &op));
                let h = hist.clone();
                vio(&sig, || format!("random history {:?}: the last call failed with {} but the state changed", h, out.brief()), || J::obj([("random_history", J::strs(hist.iter()))]));
            }
            if let Some((class, detail)) = compare(&pred, &out, &pre, &post) {
                let sig = format!("C01 {} {} [{}]", op.name(), class, arg_class(&pre, &op));
                let h = hist.clone();
                vio(&sig, || format!("random history {:?} (tree before the last call: {}; cwd {}): {} returned {}: {}", h, pre.tree.render(), pre.cwd, op.render(), out.brief(), detail), || J::obj([("random_history", J::strs(hist.iter()))]));
                break;
            }
            if post.is_err() || pre.tree.nodes.len() > 24 {
                break;
            }
        }
    });
    (walks, steps.load(Ordering::Relaxed))
}

pub fn replay_history(cfg: &SpaceCfg, case: &J) -> Option<(Memfs, Vec<usize>)> {
    let init = case.get("init").and_then(|x| x.as_i64()).unwrap_or(0) as usize;
    let fs = Memfs::new();
    for op in &cfg.inits.get(init)?.1 {
        apply(&fs, op);
    }
    let hist: Vec<usize> = case.get("history_idx")?.as_arr()?.iter().filter_map(|x| x.as_i64()).map(|x| x as usize).collect();
    for &i in &hist {
        let op = cfg.ops.get(i)?;
        let o = apply(&fs, op);
        println!("  {} -> {}", op.render(), o.brief());
    }
    Some((fs, hist))
}

fn replay(ctx: &Ctx, p: &std::path::Path) -> i32 {
    let j = json::parse(&std::fs::read_to_string(p).expect("read replay")).expect("parse replay");
    let case = j.get("case").expect("case");
    let cfg = config_by_name(case.get("config").and_then(|x| x.as_str()).expect("config")).expect("known config");
    println!("replay {} config {}", ctx.prop, cfg.name);
    let (fs, _) = replay_history(&cfg, case).expect("history");
    let dump = fs.verif_dump();
    let pre = abs_of(&dump);
    let mut bad = false;
    if let Some(ci) = case.get("call_idx").and_then(|x| x.as_i64()) {
        let op = &cfg.ops[ci as usize];
        let fs2 = fs.verif_deep_clone();
        let out = apply(&fs2, op);
        let d2 = fs2.verif_dump();
        println!("  call {} -> {}", op.render(), out.brief());
        if let Ok(pre) = &pre {
            println!("  pre-state : {} (cwd {})", pre.tree.render(), pre.cwd);
            let post = abs_of(&d2);
            match &post {
                Ok(x) => println!("  post-state: {} (cwd {})", x.tree.render(), x.cwd),
                Err(e) => println!("  post-state malformed: {}", e),
            }
            let pred = reffs::step(pre, op);
            println!("  RefFs prediction: {:?}", pred);
            if let Some((c, d)) = compare(&pred, &out, pre, &post) {
                println!("  DISCREPANCY [{}]: {}", c, d);
                bad = true;
            }
            if !out.ok && single_target(op) && d2 != dump {
                println!("  DISCREPANCY: failed single-target call changed the state");
                bad = true;
            }
        }
    } else if let (Some(q), Ok(pre)) = (case.get("query").and_then(|x| x.as_str()), &pre) {
        for qo in query_ops().into_iter().chain(query_ops().iter().map(prefix_names)) {
            if qo.render() == q {
                let out = apply(&fs, &qo);
                let pred = reffs::query(pre, &qo);
                println!("  query {} -> {} ; RefFs: {:?}", q, out.brief(), pred);
                if let Some((c, d)) = compare_query(&pred, &out) {
                    println!("  DISCREPANCY [{}]: {}", c, d);
                    bad = true;
                }
            }
        }
    }
    if bad {
        println!("VIOLATION property={} replay={}", ctx.prop, p.display());
        1
    } else {
        println!("holds on this case");
        0
    }
}

#[allow(dead_code)]
pub fn _unused(_: &RState) {}

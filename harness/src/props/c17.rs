//! C17 expand() substitutes `~` and environment variables exactly, in every environment.
//!
//! Engine E5 (environment cross product in single-threaded worker processes) x E3 (template
//! enumeration). Environments: HOME x V1 x V2 (40). A worker is started with an explicit environment
//! (env_clear + HOME only); V1 and V2 are iterated inside the worker with set_var/remove_var (the
//! worker is single-threaded and rivia reads the environment at call time). Every 2nd environment is
//! additionally evaluated in a genuinely fresh process whose complete environment is explicit; the
//! digests of all outcomes must be identical (equivalence self-check, mismatch = machinery error).
//!
//! Oracle: a reference expander written from the property statement at string level. It is
//! *nondeterministic*: where the statement is ambiguous it produces every acceptable outcome:
//!   * `~` followed by text other than `/` (`~a`, `~$V1`): failure, or `$HOME` + text;
//!   * `${NAME` without closing brace: failure, or treated like `$NAME`;
//!   * `$NAME}`: failure, value + literal `}`, or value with the `}` swallowed;
//!   * a leading component of a relative template that expands to the empty string (`$V1/a` with
//!     V1="", `~/a` with HOME=""): the textual result `/a` or the component-wise result `a`.
//! Values are compared modulo the normalisation PathBuf itself performs (`Path` equality = equality of
//! `components()`: duplicate and trailing separators are irrelevant); a template with neither `~` nor
//! `$` must come back byte-identical.
use crate::common::json::{self, J};
use crate::common::par::*;
use crate::common::report::*;
use crate::engines::workers::{run_workers, Gathered, Launch, WorkerCtx};
use rivia::prelude::*;
use std::panic::{catch_unwind, AssertUnwindSafe};
use std::sync::atomic::{AtomicU64, Ordering};

const FULL: [&str; 10] = ["a", "~", "$V1", "${V1}", "$V2", "${V2}", "$", "${}", "${V1", "$V1}"];
/// separator shapes without '~' and '$': the text has to come back byte for byte
const PLAIN: [&str; 4] = ["a", "/", ".", "é"];
/// separator shapes around the expansion constructs (an empty component right after '~/', doubled and
/// trailing separators next to a variable)
const RAWX: [&str; 5] = ["a", "/", "~", "$V1", "${V2}"];
/// literal text that cannot belong to a variable name right after an unbraced reference ("$V1.x", "$V1-a")
const RAWY: [&str; 5] = ["a", "/", "$V1", ".x", "-"];
const SMALL: [&str; 5] = ["a", "~", "$V1", "${V2}", "$"];
const HOMES: [Option<&str>; 4] = [None, Some(""), Some("/h"), Some("/h/x/")];
const V1S: [Option<&str>; 5] = [None, Some(""), Some("v"), Some("a/b"), Some("/abs")];
const V2S: [Option<&str>; 2] = [None, Some("w")];
const DIGEST_MASK: u64 = (1 << 52) - 1;
/// every FRESH_EVERY-th environment is re-evaluated in a fresh process
const FRESH_EVERY: usize = 2;

// ---------------------------------------------------------------------------------------------
// Template space
// ---------------------------------------------------------------------------------------------
struct Family {
    alpha: &'static [&'static str],
    /// (component sizes, first index, number of token tuples)
    shapes: Vec<(Vec<u8>, u64, u64)>,
    n: u64,
    /// raw family: every string of 1..=L tokens, no component structure and no optional leading '/'
    raw: bool,
}

impl Family {
    /// all templates of <= 3 components, each of 1..=3 tokens, with min_total <= #tokens <= max_total,
    /// ordered by total number of tokens (simplest first); min_total == 0 adds the empty template
    fn new(alpha: &'static [&'static str], min_total: u32, max_total: u32) -> Family {
        let mut sh: Vec<Vec<u8>> = vec![];
        if min_total == 0 {
            sh.push(vec![]);
        }
        for a in 1..=3u8 {
            sh.push(vec![a]);
            for b in 1..=3u8 {
                sh.push(vec![a, b]);
                for c in 1..=3u8 {
                    sh.push(vec![a, b, c]);
                }
            }
        }
        let total = |v: &Vec<u8>| v.iter().map(|x| *x as u32).sum::<u32>();
        sh.retain(|v| total(v) >= min_total && total(v) <= max_total);
        sh.sort_by(|x, y| (total(x), x.len(), x.clone()).cmp(&(total(y), y.len(), y.clone())));
        let mut shapes = vec![];
        let mut off = 0u64;
        for v in sh {
            let cnt = (alpha.len() as u64).pow(total(&v));
            shapes.push((v, off, cnt));
            off += cnt;
        }
        Family { alpha, shapes, n: off * 2, raw: false }
    }
    /// every concatenation of 1..=max_len tokens (separators are tokens of the alphabet)
    fn raw(alpha: &'static [&'static str], max_len: u32) -> Family {
        let mut shapes = vec![];
        let mut off = 0u64;
        for l in 1..=max_len {
            let cnt = (alpha.len() as u64).pow(l);
            shapes.push((vec![l as u8], off, cnt));
            off += cnt;
        }
        Family { alpha, shapes, n: off, raw: true }
    }
    fn get(&self, idx: u64, out: &mut String) {
        out.clear();
        let lead = !self.raw && idx & 1 == 1;
        let j = if self.raw { idx } else { idx >> 1 };
        let (sizes, off, _) = self.shapes.iter().rev().find(|(_, off, _)| *off <= j).expect("shape");
        let mut r = j - off;
        let k = self.alpha.len() as u64;
        let total: usize = sizes.iter().map(|x| *x as usize).sum();
        let mut digits = [0usize; 9];
        for i in (0..total).rev() {
            digits[i] = (r % k) as usize;
            r /= k;
        }
        if lead {
            out.push('/');
        }
        let mut d = 0;
        for (ci, sz) in sizes.iter().enumerate() {
            if ci > 0 {
                out.push('/');
            }
            for _ in 0..*sz {
                out.push_str(self.alpha[digits[d]]);
                d += 1;
            }
        }
    }
}

struct Space {
    fams: Vec<Family>,
    /// templates below this index take part in the fresh-process digest comparison
    digest_cap: u64,
    /// templates below this index are swept first, sequentially (deterministic simplest witnesses)
    phase1: u64,
    bounds: String,
}

impl Space {
    fn new(tier: Tier) -> Space {
        let (full_max, small_max) = tier.pick((4, 7), (5, 9));
        let f1 = Family::new(&FULL, 0, full_max);
        let f2 = Family::new(&SMALL, full_max + 1, small_max);
        let f3 = Family::raw(&PLAIN, tier.pick(6, 8));
        let f4 = Family::raw(&RAWX, tier.pick(6, 7));
        let f5 = Family::raw(&RAWY, tier.pick(5, 6));
        let digest_cap = Family::new(&FULL, 0, 4).n;
        let phase1 = Family::new(&FULL, 0, 2).n;
        let bounds = format!(
            "templates: optional leading '/', <=3 components of 1..=3 tokens each; full 10-token alphabet {:?} with <= {} tokens in total ({} templates) plus reduced alphabet {:?} with {}..={} tokens in total ({} templates) plus every string of 1..={} tokens over {:?} ({} templates, returned-unchanged clause on repeated / trailing separators and dot components) plus every string of 1..={} tokens over {:?} ({} templates); environments: HOME {:?} x V1 {:?} x V2 {:?}",
            FULL, full_max, f1.n, SMALL, full_max + 1, small_max, f2.n, tier.pick(6, 8), PLAIN, f3.n, tier.pick(6, 7), RAWX, f4.n, HOMES, V1S, V2S
        );
        Space { fams: vec![f1, f2, f3, f4, f5], digest_cap, phase1, bounds }
    }
    fn n(&self) -> u64 {
        self.fams.iter().map(|f| f.n).sum()
    }
    fn get(&self, mut idx: u64, out: &mut String) {
        for f in &self.fams {
            if idx < f.n {
                return f.get(idx, out);
            }
            idx -= f.n;
        }
        panic!("template index out of range");
    }
}

// ---------------------------------------------------------------------------------------------
// Reference expander (from the statement; string level; nondeterministic where ambiguous)
// ---------------------------------------------------------------------------------------------
#[derive(Default, Debug)]
pub struct Acc {
    /// acceptable successful results (as strings; compared as paths)
    pub oks: Vec<String>,
    /// failure is acceptable
    pub err_ok: bool,
    /// why failure is acceptable (first ambiguity met)
    pub reason: Option<&'static str>,
    /// why failure is demanded on some reading (first definite failure met)
    pub hard: Option<&'static str>,
    /// the result must be byte-identical to the template
    pub exact: bool,
}

impl Acc {
    /// a definite failure of the current reading
    fn fail(&mut self, why: &'static str) {
        self.err_ok = true;
        self.hard.get_or_insert(why);
    }
    /// an ambiguous construct: failing is one of the acceptable readings
    fn may_fail(&mut self, why: &'static str) {
        self.err_ok = true;
        self.reason.get_or_insert(why);
    }
    fn why(&self) -> &'static str {
        self.hard.or(self.reason).unwrap_or("?")
    }
}

fn is_name(c: u8) -> bool {
    c.is_ascii_alphanumeric() || c == b'_'
}

pub fn ref_expand(t: &str, get: &dyn Fn(&str) -> Option<String>) -> Acc {
    let mut acc = Acc::default();
    let tildes = t.matches('~').count();
    if tildes == 0 && !t.contains('$') {
        acc.oks.push(t.to_string());
        acc.exact = true;
        return acc;
    }
    let rel = !t.starts_with('/');
    let (init, rest) = if tildes > 1 {
        acc.fail("more-than-one-tilde");
        return acc;
    } else if tildes == 1 {
        if !t.starts_with('~') {
            acc.fail("tilde-not-at-start");
            return acc;
        }
        let r = &t[1..];
        if !(r.is_empty() || r.starts_with('/')) {
            // "~a": the tilde is at the start but is not a whole component; failing and replacing
            // the tilde are both defensible readings
            acc.may_fail("tilde-followed-by-text(ambiguous)");
        }
        match get("HOME") {
            None => {
                acc.fail("HOME-unset");
                return acc;
            },
            Some(h) => (h, r),
        }
    } else {
        (String::new(), t)
    };
    scan(rest.as_bytes(), 0, init, 0, rel, get, &mut acc);
    let mut seen: Vec<String> = vec![];
    for o in std::mem::take(&mut acc.oks) {
        if !seen.contains(&o) {
            seen.push(o);
        }
    }
    acc.oks = seen;
    acc
}

/// `seps` = number of leading template separators in `cur` while `cur` consists of nothing else
fn scan(s: &[u8], mut pos: usize, mut cur: String, mut seps: usize, rel: bool, get: &dyn Fn(&str) -> Option<String>, acc: &mut Acc) {
    while pos < s.len() {
        let c = s[pos];
        if c != b'$' {
            if c == b'/' && cur.len() == seps {
                seps += 1;
            }
            // copy one whole UTF-8 character ('$' and '/' are ASCII, so boundaries are safe)
            let ch = std::str::from_utf8(&s[pos..]).ok().and_then(|x| x.chars().next()).unwrap_or('?');
            cur.push(ch);
            pos += ch.len_utf8();
            continue;
        }
        if s.get(pos + 1) == Some(&b'{') {
            let st = pos + 2;
            let mut en = st;
            while en < s.len() && is_name(s[en]) {
                en += 1;
            }
            let name = std::str::from_utf8(&s[st..en]).unwrap();
            let closed = s.get(en) == Some(&b'}');
            if !closed {
                // "${NAME" without the closing brace: failing is acceptable, so is reading it as $NAME
                acc.may_fail("unclosed-brace(ambiguous)");
            }
            if name.is_empty() {
                acc.fail("empty-name-in-braces");
                return;
            }
            match get(name) {
                None => {
                    acc.fail("variable-not-set");
                    return;
                },
                Some(v) => cur.push_str(&v),
            }
            pos = if closed { en + 1 } else { en };
        } else {
            let st = pos + 1;
            let mut en = st;
            while en < s.len() && is_name(s[en]) {
                en += 1;
            }
            let name = std::str::from_utf8(&s[st..en]).unwrap();
            if name.is_empty() {
                acc.fail(if st >= s.len() || s[st] == b'/' { "empty-name-dollar-at-end-of-component" } else { "empty-name" });
                return;
            }
            match get(name) {
                None => {
                    acc.fail("variable-not-set");
                    return;
                },
                Some(v) => cur.push_str(&v),
            }
            pos = en;
            if pos < s.len() && !matches!(s[pos], b'/' | b'$' | b'}') {
                // "$NAME.txt": where the name ends is not defined by the statement (shell reading:
                // at the first non-name character; another reading: at the next '$', '}' or '/')
                acc.may_fail("variable-name-termination(ambiguous)");
            }
            if s.get(pos) == Some(&b'}') {
                // "$NAME}": fail / keep the brace as text / swallow the brace
                acc.may_fail("stray-closing-brace(ambiguous)");
                scan(s, pos + 1, cur.clone(), seps, rel, get, acc);
                cur.push('}');
                pos += 1;
            }
        }
    }
    if rel && seps > 0 && cur.len() >= seps {
        // leading component(s) expanded to nothing: "/rest" (textual) and "rest" (component-wise)
        let alt = cur[seps..].to_string();
        acc.oks.push(cur);
        acc.oks.push(alt);
    } else {
        acc.oks.push(cur);
    }
}

// ---------------------------------------------------------------------------------------------
// One evaluation
// ---------------------------------------------------------------------------------------------
#[derive(Debug, Clone, PartialEq)]
enum R {
    Ok(String),
    Err(String),
    Panic(String),
}

impl R {
    fn is_ok(&self) -> bool {
        matches!(self, R::Ok(_))
    }
    fn verdict(&self) -> &'static str {
        match self {
            R::Ok(_) => "ok",
            R::Err(_) => "err",
            R::Panic(_) => "panic",
        }
    }
}

fn call<F: FnOnce() -> RvResult<PathBuf>>(f: F) -> R {
    match catch_unwind(AssertUnwindSafe(f)) {
        Ok(Ok(p)) => match p.to_str() {
            Some(s) => R::Ok(s.to_string()),
            None => R::Err("<non utf-8 result>".into()),
        },
        Ok(Err(e)) => R::Err(e.to_string()),
        Err(e) => R::Panic(panic_message(&e)),
    }
}

fn env_get(name: &str) -> Option<String> {
    std::env::var(name).ok()
}

/// coarse class of the expansion constructs a template uses (tilde dominates)
fn forms(t: &str) -> String {
    if t.contains('~') {
        return "uses tilde".to_string();
    }
    let mut v = vec![];
    if t.contains("${") {
        v.push("${NAME}");
    }
    let b = t.as_bytes();
    if (0..b.len()).any(|i| b[i] == b'$' && b.get(i + 1) != Some(&b'{')) {
        v.push("$NAME");
    }
    format!("uses {}", v.join("+"))
}

fn used_values_empty(t: &str) -> bool {
    (t.contains('~') && env_get("HOME").as_deref() == Some("")) || (t.contains("V1") && env_get("V1").as_deref() == Some("")) || (t.contains("V2") && env_get("V2").as_deref() == Some(""))
}

fn env_desc() -> String {
    format!("HOME={:?} V1={:?} V2={:?}", env_get("HOME"), env_get("V1"), env_get("V2"))
}

fn env_json() -> Vec<(&'static str, J)> {
    let o = |k: &str| env_get(k).map(J::s).unwrap_or(J::Null);
    vec![("HOME", o("HOME")), ("V1", o("V1")), ("V2", o("V2"))]
}

struct Eval {
    findings: Vec<(String, String)>,
    nontrivial: bool,
    expect_fail_only: bool,
    ambiguous: bool,
    outcome: String,
    acc: Acc,
    got: R,
}

/// Evaluate one template in the *current process environment*
fn eval(t: &str, mem: &Memfs) -> Eval {
    let acc = ref_expand(t, &env_get);
    let got = call(|| sys::expand(t));
    let ext = call(|| Path::new(t).expand());
    let mabs = call(|| mem.abs(t));
    let sabs = call(|| Stdfs::abs(t));
    let mut f: Vec<(String, String)> = vec![];
    let head = || format!("template {:?} in environment {}", t, env_desc());
    let want = || {
        format!(
            "reference accepts {}{}{}",
            if acc.oks.is_empty() { "no successful result".to_string() } else { format!("Ok of any of {:?} (compared as paths)", acc.oks) },
            if acc.err_ok { " or Err" } else { "" },
            if acc.err_ok { format!(" [{}]", acc.why()) } else { String::new() }
        )
    };
    match &got {
        R::Panic(m) => f.push(("expand panic".into(), format!("{}: sys::expand panicked: {}; {}", head(), m, want()))),
        R::Ok(s) => {
            if acc.oks.is_empty() {
                f.push((
                    format!("expand accepted-but-must-fail reason={}", acc.why()),
                    format!("{}: sys::expand returned Ok({:?}) but the statement demands a failure; {}", head(), s, want()),
                ));
            } else if acc.exact {
                if s != t {
                    f.push(("expand changed-text-without-tilde-or-dollar".into(), format!("{}: sys::expand returned {:?}, must be unchanged", head(), s)));
                }
            } else if !acc.oks.iter().any(|o| Path::new(o) == Path::new(s)) {
                let gp = Path::new(s);
                let reset = gp.is_absolute()
                    && acc.oks.iter().any(|o| {
                        let e: Vec<_> = Path::new(o).components().filter(|c| matches!(c, Component::Normal(_))).collect();
                        let g: Vec<_> = gp.components().filter(|c| matches!(c, Component::Normal(_))).collect();
                        g.len() < e.len() && e[e.len() - g.len()..] == g[..]
                    })
                    && [env_get("V1"), env_get("V2")].iter().any(|v| v.as_deref().map(|x| x.starts_with('/')).unwrap_or(false));
                let sig = if reset {
                    "expand value: absolute variable value in a later position discards the preceding path".to_string()
                } else {
                    // classify the difference, not the input: one defect = few signatures
                    let squash = |x: &str| {
                        let mut o = String::new();
                        for c in x.chars() {
                            if !(c == '/' && o.ends_with('/')) {
                                o.push(c);
                            }
                        }
                        o
                    };
                    let (g, e) = (squash(s), squash(&acc.oks[0]));
                    let left: String = ['~', '$', '{', '}'].iter().filter(|c| g.contains(**c) && !e.contains(**c)).collect();
                    if !left.is_empty() {
                        format!("expand value: result keeps expansion syntax {:?}", left)
                    } else if g.len() < e.len() {
                        format!("expand value: text missing from the result ({})", forms(t))
                    } else if g.len() > e.len() {
                        format!("expand value: extra text in the result ({})", forms(t))
                    } else {
                        format!("expand value: different text ({})", forms(t))
                    }
                };
                f.push((sig, format!("{}: sys::expand returned Ok({:?}); {}", head(), s, want())));
            }
        },
        R::Err(e) => {
            if !acc.err_ok {
                f.push((
                    format!("expand failed-but-must-succeed ({}; {})", forms(t), if used_values_empty(t) { "an empty value involved" } else { "no empty value" }),
                    format!("{}: sys::expand returned Err({}); {}", head(), e, want()),
                ));
            }
        },
    }
    if ext != got {
        f.push(("expand PathExt form differs from sys::expand".into(), format!("{}: Path::expand() = {:?}, sys::expand = {:?}", head(), ext, got)));
    }
    // abs(): same verdict as expand wherever the other steps of abs cannot fail (non-empty template;
    // no "..", no protocol prefix in templates or values; cwd exists)
    if !t.is_empty() {
        for (name, r) in [("Memfs::abs", &mabs), ("Stdfs::abs", &sabs)] {
            if let R::Panic(m) = r {
                f.push((format!("{} panic", name), format!("{}: {} panicked: {}", head(), name, m)));
            } else if !matches!(got, R::Panic(_)) && r.is_ok() != got.is_ok() && !(got.is_ok() && t.split('/').any(|c| c == "..")) {
                // (a template with a ".." component may legitimately climb above the root in abs)
                f.push((
                    format!("{} verdict differs from expand (expand={} abs={})", name, got.verdict(), r.verdict()),
                    format!("{}: sys::expand = {:?} but {} = {:?}", head(), got, name, r),
                ));
            }
        }
    }
    let nontrivial = !acc.exact;
    Eval {
        findings: f,
        nontrivial,
        expect_fail_only: acc.oks.is_empty(),
        ambiguous: acc.err_ok && !acc.oks.is_empty(),
        outcome: format!("{:?}|{:?}|{:?}", got, mabs, sabs),
        acc,
        got,
    }
}

fn fnv(s: &str, seed: u64) -> u64 {
    let mut h: u64 = 0xcbf29ce484222325 ^ seed.wrapping_mul(0x9E3779B97F4A7C15);
    for b in s.bytes() {
        h ^= b as u64;
        h = h.wrapping_mul(0x100000001b3);
    }
    h
}

// ---------------------------------------------------------------------------------------------
// Worker side
// ---------------------------------------------------------------------------------------------
static CUR_IDX: AtomicU64 = AtomicU64::new(u64::MAX);
static TICK: AtomicU64 = AtomicU64::new(0);

fn set_opt(name: &str, v: Option<&str>) {
    match v {
        Some(x) => std::env::set_var(name, x),
        None => std::env::remove_var(name),
    }
}

fn machinery(msg: &str) -> ! {
    eprintln!("machinery: C17 worker: {}", msg);
    std::process::exit(2);
}

/// The watchdog never touches the environment; it only reads atomics and terminates the process.
fn start_watchdog(tier: Tier) {
    let limit = tier.pick(10u64, 30u64);
    let main_tid = crate::common::par::my_tid();
    std::thread::spawn(move || {
        let mut last = (u64::MAX, std::time::Instant::now());
        loop {
            std::thread::sleep(std::time::Duration::from_millis(500));
            let t = TICK.load(Ordering::Relaxed);
            if t != last.0 {
                last = (t, std::time::Instant::now());
            } else if last.1.elapsed().as_secs() >= limit && CUR_IDX.load(Ordering::Relaxed) != u64::MAX {
                if !crate::common::par::confirm_stuck(main_tid, std::time::Duration::from_secs(limit), &|| TICK.load(Ordering::Relaxed) == t) {
                    last = (u64::MAX, std::time::Instant::now());
                    continue;
                }
                let idx = CUR_IDX.load(Ordering::Relaxed);
                let mut t = String::new();
                Space::new(tier).get(idx, &mut t);
                let j = J::obj([
                    ("sig", J::s("expand/abs hang")),
                    ("n", J::i(1)),
                    ("detail", J::s(format!("template {:?} (index {}): no return within {} s", t, idx, limit))),
                    ("case", {
                        let mut o = vec![("template", J::s(&t))];
                        o.extend(env_json());
                        J::obj(o)
                    }),
                ]);
                println!("V\t{}", j.to_string());
                println!("DONE");
                unsafe { libc::_exit(0) }
            }
        }
    });
}

fn run_range(w: &mut WorkerCtx, sp: &Space, lo: u64, hi: u64, envkey: &str, mem: &Memfs) {
    let mut t = String::new();
    let mut dg = 0u64;
    let (mut evals, mut nontriv, mut must_fail, mut amb, mut ok_results) = (0u64, 0u64, 0u64, 0u64, 0u64);
    let mut idx = lo;
    while idx < hi {
        if !w.mine(idx) {
            idx += 1;
            continue;
        }
        sp.get(idx, &mut t);
        CUR_IDX.store(idx, Ordering::Relaxed);
        TICK.fetch_add(1, Ordering::Relaxed);
        let e = eval(&t, mem);
        evals += 1;
        nontriv += e.nontrivial as u64;
        must_fail += e.expect_fail_only as u64;
        amb += e.ambiguous as u64;
        ok_results += e.got.is_ok() as u64;
        if idx < sp.digest_cap {
            dg = dg.wrapping_add(fnv(&e.outcome, idx));
        }
        if e.nontrivial && e.got.is_ok() && e.findings.is_empty() && idx % 97 == fnv(envkey, 0) % 97 {
            let mut o = vec![("template", J::s(&t))];
            o.extend(env_json());
            o.push(("expand", J::s(format!("{:?}", e.got))));
            o.push(("reference_accepts", J::strs(e.acc.oks.iter())));
            w.sample(J::obj(o));
        }
        for (sig, detail) in e.findings {
            let t2 = t.clone();
            w.vio(&sig, || detail, || {
                let mut o = vec![("template", J::s(t2))];
                o.extend(env_json());
                J::obj(o)
            });
        }
        idx += 1;
    }
    CUR_IDX.store(u64::MAX, Ordering::Relaxed);
    w.count("evaluations", evals);
    w.count("nontrivial", nontriv);
    w.count("reference_demands_failure", must_fail);
    w.count("reference_ambiguous", amb);
    w.count("rivia_ok_results", ok_results);
    w.count(&format!("dg|{}", envkey), dg & DIGEST_MASK);
}

pub fn worker(w: &mut WorkerCtx) {
    let _ = std::env::set_current_dir("/");
    let mode = w.arg(0).to_string();
    let sp = Space::new(w.tier);
    let mem = Memfs::new();
    match mode.as_str() {
        // sweep <home index> <lo> <hi>: HOME comes from the explicit process environment, V1 x V2 are
        // iterated here
        "sweep" => {
            let hi_: usize = w.arg(1).parse().unwrap_or(99);
            let lo: u64 = w.arg(2).parse().unwrap_or(0);
            let hi: u64 = w.arg(3).parse().unwrap_or(0).min(sp.n());
            if hi_ >= HOMES.len() || std::env::var("HOME").ok().as_deref() != HOMES[hi_] {
                machinery("HOME of the worker process does not match the requested configuration");
            }
            if std::env::vars_os().any(|(k, _)| k != "HOME") {
                machinery("worker environment is not clean");
            }
            start_watchdog(w.tier);
            for (i1, v1) in V1S.iter().enumerate() {
                for (i2, v2) in V2S.iter().enumerate() {
                    set_opt("V1", *v1);
                    set_opt("V2", *v2);
                    run_range(w, &sp, lo, hi, &format!("{}.{}.{}", hi_, i1, i2), &mem);
                }
            }
            w.count("configs_in_worker", (V1S.len() * V2S.len()) as u64);
            // HOME changed inside the running process: every call reads the environment afresh, nothing may be
            // remembered from an earlier call (each other configuration of HOME starts a process of its own)
            set_opt("V1", V1S[1.min(V1S.len() - 1)]);
            set_opt("V2", V2S[1.min(V2S.len() - 1)]);
            let span = (hi - lo).min(w.tier.pick(1500, 6000));
            let before = w.counters.clone();
            for round in 0..2 {
                for (hj, h) in HOMES.iter().enumerate() {
                    set_opt("HOME", *h);
                    run_range(w, &sp, lo, lo + span, &format!("home-changed-in-process.{}.{}.{}", hi_, round, hj), &mem);
                }
            }
            set_opt("HOME", HOMES[hi_]);
            // keep these evaluations apart from the per-environment totals the driver cross-checks
            let after = w.counters.clone();
            for (k, v) in after {
                let b = *before.get(&k).unwrap_or(&0);
                if v != b && !k.starts_with("dg|") {
                    w.counters.insert(k.clone(), b);
                    *w.counters.entry(format!("{} (HOME changed in process)", k)).or_insert(0) += v - b;
                }
            }
            w.count("home_changes_in_process", 2 * HOMES.len() as u64);
        },
        // fresh <home index> <v1 index> <v2 index> <lo> <hi>: the whole environment is explicit,
        // nothing is modified in-process
        "fresh" => {
            let ix: Vec<usize> = (1..4).map(|i| w.arg(i).parse().unwrap_or(99)).collect();
            let lo: u64 = w.arg(4).parse().unwrap_or(0);
            let hi: u64 = w.arg(5).parse().unwrap_or(0).min(sp.n());
            if ix[0] >= HOMES.len()
                || ix[1] >= V1S.len()
                || ix[2] >= V2S.len()
                || env_get("HOME").as_deref() != HOMES[ix[0]]
                || env_get("V1").as_deref() != V1S[ix[1]]
                || env_get("V2").as_deref() != V2S[ix[2]]
            {
                machinery("environment of the fresh process does not match the requested configuration");
            }
            start_watchdog(w.tier);
            run_range(w, &sp, lo, hi, &format!("{}.{}.{}", ix[0], ix[1], ix[2]), &mem);
        },
        // one <template>: replay of a single case in the given (explicit) environment
        "one" => {
            let t = w.arg(1).to_string();
            start_watchdog(w.tier);
            let e = eval(&t, &mem);
            let mut o = vec![("template", J::s(&t))];
            o.extend(env_json());
            o.push(("expand", J::s(format!("{:?}", e.got))));
            o.push(("reference_accepts_ok", J::strs(e.acc.oks.iter())));
            o.push(("reference_accepts_err", J::Bool(e.acc.err_ok)));
            o.push(("reference_reason", J::s(if e.acc.err_ok { e.acc.why() } else { "" })));
            o.push(("outcome_expand_memfs_abs_stdfs_abs", J::s(&e.outcome)));
            o.push(("findings", J::arr(e.findings.iter().map(|(s, d)| J::obj([("signature", J::s(s)), ("detail", J::s(d))])))));
            w.sample(J::obj(o));
            for (sig, detail) in e.findings {
                w.vio(&sig, || detail, || J::Null);
            }
        },
        _ => machinery("unknown mode"),
    }
}

// ---------------------------------------------------------------------------------------------
// Parent side
// ---------------------------------------------------------------------------------------------
fn merge(into: &mut Gathered, g: Gathered) {
    for (k, v) in g.counters {
        *into.counters.entry(k).or_insert(0) += v;
    }
    for s in g.samples {
        if into.samples.len() < 6 {
            into.samples.push(s);
        }
    }
    into.failed.extend(g.failed);
}

fn env_vec(h: Option<&str>, v1: Option<&str>, v2: Option<&str>) -> Vec<(String, String)> {
    let mut v = vec![];
    for (k, x) in [("HOME", h), ("V1", v1), ("V2", v2)] {
        if let Some(x) = x {
            v.push((k.to_string(), x.to_string()));
        }
    }
    v
}

pub fn run(ctx: &Ctx) -> i32 {
    quiet_panics();
    if let Some(p) = &ctx.replay {
        return replay(ctx, p);
    }
    let sp = Space::new(ctx.tier);
    let n = sp.n();
    let mut total = Gathered::default();

    // phase 1: the simplest templates, one process per HOME value, sequentially (so the witness kept
    // per signature is the simplest one and does not depend on scheduling)
    for (hi, h) in HOMES.iter().enumerate() {
        let mut g = Gathered::default();
        run_workers(
            ctx,
            &Launch {
                name: "c17".into(),
                nshards: 1,
                extra: vec!["sweep".into(), hi.to_string(), "0".into(), sp.phase1.to_string()],
                uid: None,
                env: Some(env_vec(*h, None, None)),
            },
            &mut g,
        );
        merge(&mut total, g);
    }
    // phase 2: everything else; the four HOME groups run concurrently, each sharded
    let per = (ctx.threads / 2).max(1) as u64; // 4 groups x threads/2 shards: mild oversubscription evens out the unequal group costs
    let gs: Vec<Gathered> = std::thread::scope(|s| {
        let hs: Vec<_> = HOMES
            .iter()
            .enumerate()
            .map(|(hi, h)| {
                let sp = &sp;
                s.spawn(move || {
                    let mut g = Gathered::default();
                    run_workers(
                        ctx,
                        &Launch {
                            name: "c17".into(),
                            nshards: per,
                            extra: vec!["sweep".into(), hi.to_string(), sp.phase1.to_string(), n.to_string()],
                            uid: None,
                            env: Some(env_vec(*h, None, None)),
                        },
                        &mut g,
                    );
                    g
                })
            })
            .collect();
        hs.into_iter().map(|h| h.join().expect("phase 2 thread")).collect()
    });
    for g in gs {
        merge(&mut total, g);
    }

    // equivalence self-check: every FRESH_EVERY-th environment in a fresh process with a completely
    // explicit environment; digests over all templates below digest_cap must agree
    let mut envs: Vec<(usize, usize, usize)> = vec![];
    for hi in 0..HOMES.len() {
        for i1 in 0..V1S.len() {
            for i2 in 0..V2S.len() {
                envs.push((hi, i1, i2));
            }
        }
    }
    let picked: Vec<(usize, usize, usize)> = envs.iter().cloned().enumerate().filter(|(i, _)| i % FRESH_EVERY == 0).map(|(_, e)| e).collect();
    let fresh: std::sync::Mutex<Gathered> = std::sync::Mutex::new(Gathered::default());
    let cap = sp.digest_cap.min(n);
    par_each(ctx.threads, &picked, |_, _, &(hi, i1, i2)| {
        let mut g = Gathered::default();
        run_workers(
            ctx,
            &Launch {
                name: "c17".into(),
                nshards: 1,
                extra: vec!["fresh".into(), hi.to_string(), i1.to_string(), i2.to_string(), "0".into(), cap.to_string()],
                uid: None,
                env: Some(env_vec(HOMES[hi], V1S[i1], V2S[i2])),
            },
            &mut g,
        );
        merge(&mut fresh.lock().unwrap(), g);
    });
    let fresh = fresh.into_inner().unwrap();
    let mut machinery_errors: Vec<String> = vec![];
    machinery_errors.extend(total.failed.iter().cloned());
    machinery_errors.extend(fresh.failed.iter().cloned());
    let mut compared = 0u64;
    for (hi, i1, i2) in &picked {
        let key = format!("dg|{}.{}.{}", hi, i1, i2);
        let a = total.counters.get(&key).map(|x| x & DIGEST_MASK);
        let b = fresh.counters.get(&key).map(|x| x & DIGEST_MASK);
        match (a, b) {
            (Some(a), Some(b)) if a == b => compared += 1,
            _ => machinery_errors.push(format!(
                "fresh-process equivalence check failed for environment HOME={:?} V1={:?} V2={:?}: sweep digest {:?}, fresh digest {:?}",
                HOMES[*hi], V1S[*i1], V2S[*i2], a, b
            )),
        }
    }
    let expected_evals = n * (HOMES.len() * V1S.len() * V2S.len()) as u64;
    if total.c("evaluations") != expected_evals {
        machinery_errors.push(format!("evaluations {} != expected {}", total.c("evaluations"), expected_evals));
    }
    // a worker that hit the hang watchdog reported the hang as a violation and lost its counters: the
    // run is then incomplete by construction (a verdict, not a machinery error)
    let hang = vio_signatures().iter().any(|s| s.ends_with("hang"));
    if !machinery_errors.is_empty() && !hang {
        for m in machinery_errors.iter().take(10) {
            eprintln!("machinery: {}", m);
        }
        return 2;
    }

    let cov = J::obj([
        ("evaluations", J::i(total.c("evaluations"))),
        ("distinct_nontrivial", J::i(total.c("nontrivial"))),
        ("rule", J::s("every (environment, template) pair is distinct; non-trivial = the template contains '~' or '$' (the reference outcome is not simply 'unchanged'). Each pair: sys::expand vs the nondeterministic reference expander (Err-ness and value as a path), PathExt form identical, Memfs::abs and Stdfs::abs have the same Ok/Err verdict as expand, no panic.")),
        ("templates", J::i(n)),
        ("environments", J::i(envs.len())),
        ("reference_demands_failure", J::i(total.c("reference_demands_failure"))),
        ("reference_ambiguous_either_accepted", J::i(total.c("reference_ambiguous"))),
        ("rivia_ok_results", J::i(total.c("rivia_ok_results"))),
        ("fresh_process_environments_compared", J::i(compared)),
        ("fresh_process_evaluations", J::i(fresh.c("evaluations"))),
        ("samples", J::Arr(total.samples.clone())),
        ("exhaustive", J::Bool(!hang)),
        ("bounds", J::s(&sp.bounds)),
    ]);
    let code = finish(ctx, Evidence {
        level: "exploration",
        coverage: cov,
        assumptions: vec![
            "pruning: the full design space (3 components x 3 tokens over 10 tokens = 1.4e9 templates) is cut to a bound on the TOTAL number of tokens per template; the per-component scanner has no cross-component state except the tilde count and PathBuf::push, both exercised within the bound".into(),
            "ambiguous constructs accept several outcomes: '~' followed by text, '${NAME' unclosed, '$NAME}', leading component expanding to the empty string (see module doc)".into(),
            "values compared as paths (Path equality), text without '~' and '$' compared byte for byte".into(),
            "V1 and V2 are varied inside single-threaded workers by set_var/remove_var; HOME by the explicit process environment; equivalence with fresh processes is checked on every 2nd environment".into(),
            "abs() verdict comparison assumes cwd '/' exists and templates/values contain no '..' or protocol prefix".into(),
        ],
    });
    // an incomplete exploration can never be waved through as a known finding
    if hang && code == 0 {
        1
    } else {
        code
    }
}

fn replay(ctx: &Ctx, p: &std::path::Path) -> i32 {
    let j = json::parse(&std::fs::read_to_string(p).expect("read replay")).expect("parse replay");
    let case = j.get("case").expect("case");
    let t = case.get("template").and_then(|x| x.as_str()).expect("case.template").to_string();
    let o = |k: &str| case.get(k).and_then(|x| x.as_str()).map(|x| x.to_string());
    let (h, v1, v2) = (o("HOME"), o("V1"), o("V2"));
    println!("replay C17 template={:?} HOME={:?} V1={:?} V2={:?} (fresh process, explicit environment)", t, h, v1, v2);
    let mut g = Gathered::default();
    run_workers(
        ctx,
        &Launch { name: "c17".into(), nshards: 1, extra: vec!["one".into(), t.clone()], uid: None, env: Some(env_vec(h.as_deref(), v1.as_deref(), v2.as_deref())) },
        &mut g,
    );
    if !g.failed.is_empty() {
        eprintln!("machinery: {}", g.failed.join("; "));
        return 2;
    }
    for s in &g.samples {
        println!("{}", s.to_pretty());
    }
    let sigs = vio_signatures();
    if sigs.is_empty() {
        println!("holds");
        0
    } else {
        for s in sigs {
            println!("  signature: {}", s);
        }
        println!("VIOLATION property={} replay={}", ctx.prop, p.display());
        1
    }
}

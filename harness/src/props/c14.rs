//! C14 clean() == Go's path.Clean; idempotent; preserves absoluteness; never empty.
use crate::common::json::J;
use crate::common::par::*;
use crate::common::report::*;
use crate::common::strings::*;
use crate::models::go_clean::go_clean;
use rivia::prelude::*;
use std::panic::{catch_unwind, AssertUnwindSafe};
use std::sync::atomic::{AtomicU64, Ordering};

fn shape(s: &str) -> String {
    // abstract names to 'n' and collapse runs of name characters
    let mut out = String::new();
    let mut prev_n = false;
    for c in s.chars() {
        if c == '/' || c == '.' {
            out.push(c);
            prev_n = false;
        } else if !prev_n {
            out.push('n');
            prev_n = true;
        }
    }
    out
}

pub fn check_one(s: &str) -> Option<(String, String)> {
    let r = catch_unwind(AssertUnwindSafe(|| sys::clean(s)));
    let got = match r {
        Err(e) => return Some((format!("clean panic shape={}", shape(s)), format!("clean({:?}) panicked: {}", s, panic_message(&e)))),
        Ok(p) => p,
    };
    let got_s = match got.to_str() {
        Some(x) => x.to_string(),
        None => return Some(("clean non-utf8 output".into(), format!("clean({:?}) returned non UTF-8", s))),
    };
    let want = go_clean(s);
    if got_s != want {
        return Some((format!("clean differs-from-go shape={}", shape(s)), format!("clean({:?}) = {:?}, Go path.Clean gives {:?}", s, got_s, want)));
    }
    if got_s.is_empty() {
        return Some(("clean empty-result".into(), format!("clean({:?}) returned the empty path", s)));
    }
    if s.starts_with('/') != got_s.starts_with('/') {
        return Some((format!("clean absoluteness shape={}", shape(s)), format!("clean({:?}) = {:?} changes absoluteness", s, got_s)));
    }
    let again = catch_unwind(AssertUnwindSafe(|| sys::clean(&got_s)));
    match again {
        Ok(p) if p.to_str() == Some(got_s.as_str()) => {},
        Ok(p) => return Some((format!("clean not-idempotent shape={}", shape(s)), format!("clean({:?}) = {:?} but cleaning that gives {:?}", s, got_s, p))),
        Err(e) => return Some(("clean panic on own output".into(), format!("clean({:?}) panicked: {}", got_s, panic_message(&e)))),
    }
    // PathExt method form must be the same function
    let via_ext = Path::new(s).clean();
    if via_ext.to_str() != Some(got_s.as_str()) {
        return Some(("clean PathExt differs".into(), format!("Path::new({:?}).clean() = {:?} but sys::clean gives {:?}", s, via_ext, got_s)));
    }
    None
}

fn sweep(ctx: &Ctx, alpha: &[&str], max_len: u32, evals: &AtomicU64, nontrivial: &AtomicU64) {
    let n = count_upto(alpha.len() as u64, max_len);
    par_for(ctx.threads, n, 4096, |_slot, i| {
        let mut s = String::new();
        nth_string(alpha, i, &mut s);
        evals.fetch_add(1, Ordering::Relaxed);
        if let Some((sig, detail)) = check_one(&s) {
            let s2 = s.clone();
            vio(&sig, || detail, move || J::obj([("input", J::s(s2))]));
        }
        if go_clean(&s) != s {
            nontrivial.fetch_add(1, Ordering::Relaxed);
        }
    });
}

pub fn run(ctx: &Ctx) -> i32 {
    quiet_panics();
    if let Some(p) = &ctx.replay {
        return replay(ctx, p);
    }
    let evals = AtomicU64::new(0);
    let nontrivial = AtomicU64::new(0);
    let a1 = ["/", ".", "a", "b"];
    let l1 = ctx.tier.pick(10, 12);
    sweep(ctx, &a1, l1, &evals, &nontrivial);
    let a2 = ["/", ".", "a", "é", " ", "~"];
    let l2 = ctx.tier.pick(6, 8);
    sweep(ctx, &a2, l2, &evals, &nontrivial);
    // separators and dots around 3- and 4-byte characters (byte offsets and character indexes drift apart by 2 and 3)
    let a3 = ["/", ".", "€", "😀"];
    let l3 = ctx.tier.pick(8, 10);
    sweep(ctx, &a3, l3, &evals, &nontrivial);
    // long inputs (beyond every length a sweep can reach): component and byte counts around 2^8, 2^12 and 2^16,
    // each with a cancelling '..', a '.', a doubled and a trailing separator somewhere behind the long part
    {
        let mut long: Vec<String> = vec![];
        for n in [255usize, 256, 257, 4095, 4096, 4097, 65535, 65536, 65537, 70000] {
            let name = "x".repeat(n);
            long.push(format!("{}/y/..", name));
            long.push(format!("/{}/./y//z/../", name));
            long.push(format!("{}c/..", "ab/".repeat(n / 3)));
            long.push(format!("/{}../..", "a/".repeat(n / 2)));
            long.push(format!("{}a", "../".repeat(n / 3)));
            long.push(format!("{}/..", "é".repeat(n / 2)));
        }
        for s in &long {
            evals.fetch_add(1, Ordering::Relaxed);
            nontrivial.fetch_add(1, Ordering::Relaxed);
            if let Some((sig, detail)) = check_one(s) {
                // the witness is kept short: the shape of the input, not 70000 bytes of it
                let shown = if s.len() > 120 { format!("{}...<{} bytes>...{}", &s[..s.char_indices().nth(20).map(|x| x.0).unwrap_or(20)], s.len(), &s[s.len() - 12..]) } else { s.clone() };
                let s2 = s.clone();
                vio(&format!("{} long-input", sig.split(" shape=").next().unwrap_or("clean")), || format!("{} [input {}]", detail.chars().take(300).collect::<String>(), shown), move || J::obj([("input", J::s(s2))]));
            }
        }
    }
    // labelled sampling supplement: longer random strings over the wide alphabet (never decides alone)
    let mut rng = Rng(ctx.seed ^ 0xC14);
    let wide = ["/", ".", "a", "b", "é", " ", "~", "..", "//", "€"];
    let mut sampled = 0u64;
    for _ in 0..ctx.tier.pick(20_000u64, 200_000u64) {
        let len = 8 + rng.below(24);
        let mut s = String::new();
        for _ in 0..len {
            s.push_str(wide[rng.below(wide.len() as u64) as usize]);
        }
        sampled += 1;
        if let Some((sig, detail)) = check_one(&s) {
            let s2 = s.clone();
            vio(&sig, || detail, move || J::obj([("input", J::s(s2))]));
        }
    }
    let n1 = count_upto(4, l1);
    let sample_idx = [n1 / 7, n1 / 3, n1 / 2 + 12345, n1 - 77, n1 - 1];
    let cov = J::obj([
        ("evaluations", J::i(evals.load(Ordering::Relaxed))),
        ("distinct_nontrivial", J::i(nontrivial.load(Ordering::Relaxed))),
        ("rule", J::s(format!(
            "every string over {{'/','.','a','b'}} up to length {} and over {{'/','.','a','é',' ','~'}} up to length {}, and over {{'/','.','€','😀'}} up to length 8 (quick) / 10 (thorough) (odometer enumeration, all distinct); non-trivial = cleaning changes the string. Each input: clean == go_clean, non-empty, absoluteness kept, idempotent, PathExt form identical, no panic.",
            l1, l2
        ))),
        ("samples", J::arr(sample_idx.iter().map(|&i| {
            let mut s = String::new();
            nth_string(&a1, i, &mut s);
            J::obj([("input", J::s(&s)), ("clean", J::s(sys::clean(&s).to_string_lossy())), ("go_clean", J::s(go_clean(&s)))])
        }))),
        ("exhaustive", J::Bool(true)),
        ("bounds", J::s(format!("len<={} over 4 symbols; len<={} over 6 symbols", l1, l2))),
        ("sampling_supplement_inputs", J::i(sampled)),
    ]);
    finish(ctx, Evidence {
        level: "exploration",
        coverage: cov,
        assumptions: vec![
            "reference = byte-level transliteration of Go path.Clean (self-tested against Go's own test table)".into(),
            "strings beyond the length bounds / other characters only covered by the labelled random supplement".into(),
        ],
    })
}

fn replay(ctx: &Ctx, p: &std::path::Path) -> i32 {
    let j = crate::common::json::parse(&std::fs::read_to_string(p).expect("read replay")).expect("parse replay");
    let input = j.get("case").and_then(|c| c.get("input")).and_then(|x| x.as_str()).expect("case.input").to_string();
    println!("replay C14 input={:?} go_clean={:?}", input, go_clean(&input));
    match check_one(&input) {
        Some((sig, detail)) => {
            println!("{}\n  signature: {}", detail, sig);
            println!("VIOLATION property={} replay={}", ctx.prop, p.display());
            1
        },
        None => {
            println!("holds: clean({:?}) = {:?}", input, sys::clean(&input));
            0
        },
    }
}

mod common;
mod engines;
mod models;
mod props;

use common::report::{Ctx, Tier};
use std::time::Instant;

fn usage() -> ! {
    eprintln!("usage: rvmc <C01..C20> [--tier quick|thorough] [--replay <file>]");
    std::process::exit(2);
}

fn main() {
    let args: Vec<String> = std::env::args().collect();
    if args.len() < 2 {
        usage();
    }
    // worker re-exec entry points (single-threaded helper processes)
    if args[1] == "worker" {
        std::process::exit(engines::worker_main(&args[2..]));
    }
    let prop = args[1].to_uppercase();
    let mut tier = match std::env::var("VERIF_TIER").ok().as_deref() {
        Some("thorough") => Tier::Thorough,
        _ => Tier::Quick,
    };
    let mut replay = None;
    let mut i = 2;
    while i < args.len() {
        match args[i].as_str() {
            "--tier" => {
                i += 1;
                tier = match args.get(i).map(|x| x.as_str()) {
                    Some("quick") => Tier::Quick,
                    Some("thorough") => Tier::Thorough,
                    _ => usage(),
                };
            },
            "--replay" => {
                i += 1;
                replay = Some(std::path::PathBuf::from(args.get(i).unwrap_or_else(|| usage())));
            },
            _ => usage(),
        }
        i += 1;
    }
    let seed = std::env::var("VERIF_SEED").ok().and_then(|x| x.parse::<u64>().ok()).unwrap_or(1);
    let ctx = Ctx { prop: prop.clone(), tier, seed, replay, start: Instant::now(), threads: common::par::default_threads() };
    let _ = props::CTX.set(Ctx { prop: ctx.prop.clone(), tier: ctx.tier, seed: ctx.seed, replay: ctx.replay.clone(), start: ctx.start, threads: ctx.threads });
    // a panic inside a check's own code (outside its catch_unwind sections) must not lose the violations
    // recorded so far: report them (exit 1) or, if there are none, exit 2 as a machinery error
    let code = match std::panic::catch_unwind(std::panic::AssertUnwindSafe(|| dispatch(&prop, &ctx))) {
        Ok(c) => c,
        Err(e) => {
            eprintln!("machinery: the check's own code panicked: {}", common::par::panic_message(&e));
            if common::report::vio_count() > 0 {
                props::hang_exit(&prop, "checker-panic")
            } else {
                2
            }
        },
    };
    std::process::exit(code);
}

fn dispatch(prop: &str, ctx: &Ctx) -> i32 {
    let ctx = ctx;
    match prop {
        "C01" => props::c01::run(&ctx),
        "C02" => props::c02::run(&ctx),
        "C03" => props::c03::run(&ctx),
        "C04" => props::c04::run(&ctx),
        "C05" => props::c05::run(&ctx),
        "C06" => props::c06::run(&ctx),
        "C07" => props::c07::run(&ctx),
        "C08" => props::c08::run(&ctx),
        "C09" => props::c09::run(&ctx),
        "C10" => props::c10::run(&ctx),
        "C11" => props::c11::run(&ctx),
        "C12" => props::c12::run(&ctx),
        "C13" => props::c13::run(&ctx),
        "C14" => props::c14::run(&ctx),
        "C15" => props::c15::run(&ctx),
        "C16" => props::c16::run(&ctx),
        "C17" => props::c17::run(&ctx),
        "C18" => props::c18::run(&ctx),
        "C19" => props::c19::run(&ctx),
        "C20" => props::c20::run(&ctx),
        _ => {
            eprintln!("machinery: no check registered for {}", prop);
            2
        },
    }
}

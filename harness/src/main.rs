mod common;
mod engines;
mod models;
mod props;

use common::report::{Ctx, Tier};
use std::time::Instant;

fn usage() -> ! {
    eprintln!("usage: rvmc <C01..C20> [--tier quick|thorough] [--replay <file>]");
    std::process::exit(2);
}

fn main() {
    let args: Vec<String> = std::env::args().collect();
    if args.len() < 2 {
        usage();
    }
    // worker re-exec entry points (single-threaded helper processes)
    if args[1] == "worker" {
        std::process::exit(engines::worker_main(&args[2..]));
    }
    let prop = args[1].to_uppercase();
    let mut tier = match std::env::var("VERIF_TIER").ok().as_deref() {
        Some("thorough") => Tier::Thorough,
        _ => Tier::Quick,
    };
    let mut replay = None;
    let mut i = 2;
    while i < args.len() {
        match args[i].as_str() {
            "--tier" => {
                i += 1;
                tier = match args.get(i).map(|x| x.as_str()) {
                    Some("quick") => Tier::Quick,
                    Some("thorough") => Tier::Thorough,
                    _ => usage(),
                };
            },
            "--crumb" => {
                i += 1;
                std::env::set_var("RVMC_CRUMB_REPLAY", args.get(i).unwrap_or_else(|| usage()));
            },
            "--replay" => {
                i += 1;
                replay = Some(std::path::PathBuf::from(args.get(i).unwrap_or_else(|| usage())));
            },
            _ => usage(),
        }
        i += 1;
    }
    let seed = std::env::var("VERIF_SEED").ok().and_then(|x| x.parse::<u64>().ok()).unwrap_or(1);
    let ctx = Ctx { prop: prop.clone(), tier, seed, replay, start: Instant::now(), threads: common::par::default_threads() };
    let _ = props::CTX.set(Ctx { prop: ctx.prop.clone(), tier: ctx.tier, seed: ctx.seed, replay: ctx.replay.clone(), start: ctx.start, threads: ctx.threads });
    // supervised mode: checks that can be killed by a signal coming out of rivia (abort on a double
    // panic, stack overflow) run in a child process with breadcrumbs; see common::crumb
    if ctx.replay.is_none() && std::env::var("RVMC_CHILD").is_err() && std::env::var("RVMC_NO_SUPERVISOR").is_err() {
        std::process::exit(supervise(&prop, &ctx));
    }
    if ctx.replay.is_some() {
        // replays run the real-filesystem backend in this process: confine it like a worker
        engines::sandbox::isolate_filesystem();
    }
    // replay of a recorded hang: there is no single input to re-run, the watchdog that found it is part of the check
    if let Some(rp) = &ctx.replay {
        if let Ok(txt) = std::fs::read_to_string(rp) {
            if let Ok(j) = common::json::parse(&txt) {
                let case = j.get("case");
                if case.and_then(|c| c.get("part")).and_then(|x| x.as_str()) == Some("deep-chain") && case.and_then(|c| c.get("suite")).is_some() {
                    let suite = case.and_then(|c| c.get("suite")).and_then(|x| x.as_str()).unwrap_or("").to_string();
                    let found = models::deep::replay(&suite);
                    for x in &found {
                        println!("  {}: {}", x.sig, x.detail);
                    }
                    if found.is_empty() {
                        println!("holds on this case");
                        std::process::exit(0);
                    }
                    println!("VIOLATION property={} replay={}", prop, rp.display());
                    std::process::exit(1);
                }
                if case.and_then(|c| c.get("part")).and_then(|x| x.as_str()) == Some("hang") && case.and_then(|c| c.get("where").or(c.get("worker"))).is_some() {
                    println!("replay {}: the recorded violation is a call into rivia that did not return ({}); it is re-observed by re-running ./check {} (the watchdog stops at the first call that does not return)", prop, case.map(|c| c.to_string()).unwrap_or_default(), prop);
                    println!("VIOLATION property={} replay={}", prop, rp.display());
                    std::process::exit(1);
                }
            }
        }
    }
    // coarse safety net under every parallel loop: a work item that never finishes is a hang in rivia
    {
        let hp = prop.clone();
        common::par::set_stall_handler(move |msg| {
            let sig = format!("{} hang (a call into rivia does not return)", hp);
            eprintln!("HANG: {}", msg);
            let m2 = msg.clone();
            common::report::vio(&sig, move || m2, move || common::json::J::obj([("part", common::json::J::s("hang")), ("where", common::json::J::s(msg.clone()))]));
            std::process::exit(props::hang_exit(&hp, &sig));
        });
    }
    // a panic inside a check's own code (outside its catch_unwind sections) must not lose the violations
    // recorded so far: report them (exit 1) or, if there are none, exit 2 as a machinery error
    let code = match std::panic::catch_unwind(std::panic::AssertUnwindSafe(|| dispatch(&prop, &ctx))) {
        Ok(c) => c,
        Err(e) => {
            eprintln!("machinery: the check's own code panicked: {}", common::par::panic_message(&e));
            if common::report::vio_count() > 0 {
                props::hang_exit(&prop, "checker-panic")
            } else {
                2
            }
        },
    };
    std::process::exit(code);
}

fn dispatch(prop: &str, ctx: &Ctx) -> i32 {
    let ctx = ctx;
    match prop {
        "C01" => props::c01::run(&ctx),
        "C02" => props::c02::run(&ctx),
        "C03" => props::c03::run(&ctx),
        "C04" => props::c04::run(&ctx),
        "C05" => props::c05::run(&ctx),
        "C06" => props::c06::run(&ctx),
        "C07" => props::c07::run(&ctx),
        "C08" => props::c08::run(&ctx),
        "C09" => props::c09::run(&ctx),
        "C10" => props::c10::run(&ctx),
        "C11" => props::c11::run(&ctx),
        "C12" => props::c12::run(&ctx),
        "C13" => props::c13::run(&ctx),
        "C14" => props::c14::run(&ctx),
        "C15" => props::c15::run(&ctx),
        "C16" => props::c16::run(&ctx),
        "C17" => props::c17::run(&ctx),
        "C18" => props::c18::run(&ctx),
        "C19" => props::c19::run(&ctx),
        "C20" => props::c20::run(&ctx),
        _ => {
            eprintln!("machinery: no check registered for {}", prop);
            2
        },
    }
}

static CHILD_PGID: std::sync::atomic::AtomicI32 = std::sync::atomic::AtomicI32::new(0);

/// the supervised child runs in its own process group: take it down with the supervisor
extern "C" fn forward_and_die(sig: i32) {
    let pg = CHILD_PGID.load(std::sync::atomic::Ordering::SeqCst);
    unsafe {
        if pg > 0 {
            libc::killpg(pg, libc::SIGKILL);
        }
        libc::_exit(128 + sig);
    }
}

/// run the check in a child process; a child killed by a signal is triaged through its breadcrumbs
fn supervise(prop: &str, ctx: &Ctx) -> i32 {
    use std::os::unix::process::ExitStatusExt;
    let exe = std::env::current_exe().expect("current_exe");
    let base = if std::path::Path::new("/dev/shm").is_dir() { std::path::PathBuf::from("/dev/shm") } else { std::env::temp_dir() };
    let crumbs = base.join(format!("rvmc.{}.crumbs", std::process::id()));
    let _ = std::fs::remove_dir_all(&crumbs);
    std::fs::create_dir_all(&crumbs).expect("crumb dir");
    let args: Vec<String> = std::env::args().skip(1).collect();
    // the child gets its own process group and a wall budget: whatever happens inside, the check ends
    let budget = std::time::Duration::from_secs(std::env::var("VERIF_WALL_BUDGET_S").ok().and_then(|x| x.parse().ok()).unwrap_or(match ctx.tier {
        Tier::Quick => 1800,
        Tier::Thorough => 4 * 3600,
    }));
    let st = {
        use std::os::unix::process::CommandExt;
        let mut cmd = std::process::Command::new(&exe);
        cmd.args(&args).env("RVMC_CHILD", "1").env("RVMC_CRUMB_DIR", &crumbs).process_group(0);
        unsafe {
            // the child must not outlive the supervisor
            cmd.pre_exec(|| {
                libc::prctl(libc::PR_SET_PDEATHSIG, libc::SIGKILL);
                Ok(())
            });
        }
        match cmd.spawn() {
            Err(e) => Err(e),
            Ok(mut child) => {
                CHILD_PGID.store(child.id() as i32, std::sync::atomic::Ordering::SeqCst);
                unsafe {
                    for sig in [libc::SIGTERM, libc::SIGINT, libc::SIGHUP] {
                        libc::signal(sig, forward_and_die as extern "C" fn(i32) as usize);
                    }
                }
                let t0 = Instant::now();
                loop {
                    match child.try_wait() {
                        Ok(Some(s)) => break Ok(s),
                        Ok(None) => {
                            if t0.elapsed() > budget {
                                unsafe {
                                    libc::killpg(child.id() as i32, libc::SIGKILL);
                                }
                                let _ = child.wait();
                                eprintln!("machinery: the check did not finish within its wall budget of {} s and was stopped (no verdict; VERIF_WALL_BUDGET_S overrides the budget)", budget.as_secs());
                                let _ = std::fs::remove_dir_all(&crumbs);
                                return 2;
                            }
                            std::thread::sleep(std::time::Duration::from_millis(50));
                        },
                        Err(e) => break Err(e),
                    }
                }
            },
        }
    };
    let code = match st {
        Ok(s) if s.code().is_some() => s.code().unwrap(),
        Ok(s) => {
            let sig = s.signal().unwrap_or(0);
            eprintln!("check process was killed by signal {}: re-running the cases that were in flight, one per process", sig);
            let mut reproduced = 0;
            for (i, crumb) in common::crumb::read_all(&crumbs).iter().enumerate() {
                let f = crumbs.join(format!("replay{}.json", i));
                let _ = std::fs::write(&f, crumb);
                let again = std::process::Command::new(&exe)
                    .arg(prop)
                    .arg("--tier")
                    .arg(ctx.tier.name())
                    .arg("--crumb")
                    .arg(&f)
                    .env("RVMC_CHILD", "1")
                    .env_remove("RVMC_CRUMB_DIR")
                    .stdout(std::process::Stdio::null())
                    .stderr(std::process::Stdio::null())
                    .status();
                if let Ok(a) = again {
                    if a.code().is_none() {
                        reproduced += 1;
                        let case = common::json::parse(crumb).unwrap_or(common::json::J::s(crumb));
                        let what = case.get("program").and_then(|x| x.as_str()).unwrap_or("?").to_string();
                        let names = case.get("names").and_then(|x| x.as_str()).unwrap_or("?").to_string();
                        common::report::vio(
                            &format!("{} process-killed-by-signal program={}", prop, names),
                            || format!("exploring the program [{}] kills the whole process with signal {:?} (reproduced in a fresh process running only this case) - typically a second panic while unwinding, e.g. a destructor that takes the poisoned filesystem lock", what, a.signal()),
                            || case.clone(),
                        );
                    }
                }
            }
            if reproduced > 0 {
                props::hang_exit(prop, "process killed by a signal")
            } else if matches!(sig, 4 | 6 | 7 | 11) {
                // SIGILL/SIGABRT/SIGBUS/SIGSEGV and no single case to blame: the harness itself is unchanged
                // and never dies on the unchanged tree, so a death that repeats is attributed to rivia
                let again = std::process::Command::new(&exe).args(&args).env("RVMC_CHILD", "1").env_remove("RVMC_CRUMB_DIR").stdout(std::process::Stdio::null()).stderr(std::process::Stdio::null()).status();
                match again {
                    Ok(a) if a.code().is_none() && a.signal() == Some(sig) => {
                        common::report::vio(
                            &format!("{} process-killed-by-signal (whole check, no single case identified)", prop),
                            || format!("the check process is killed by signal {} on every run (twice in a row); rivia aborts the process (double panic in a destructor, stack overflow or allocation failure)", sig),
                            || common::json::J::Null,
                        );
                        props::hang_exit(prop, "process killed by a signal")
                    },
                    _ => {
                        eprintln!("machinery: the check process died once with signal {} but not on the re-run", sig);
                        2
                    },
                }
            } else {
                eprintln!("machinery: the check process was killed by signal {} (not attributable)", sig);
                2
            }
        },
        Err(e) => {
            eprintln!("machinery: cannot start the supervised check process: {}", e);
            2
        },
    };
    let _ = std::fs::remove_dir_all(&crumbs);
    code
}

//! E1: explicit-state breadth-first search over the real Memfs.
//!
//! State = a live Memfs + its canonical dump (dedup key). Transition = one call of the alphabet
//! executed on a deep clone under catch_unwind. Level-synchronous, parallel, deterministic
//! numbering (candidates are merged in (parent, op) order). Successors that break the structural
//! invariants are reported (C03) and never expanded; successors beyond the namespace bound are
//! checked but not expanded ("cut").
use crate::common::json::J;
use crate::common::par::*;
use crate::models::invariants;
use crate::models::ops::{apply, Op, Outcome};
use crate::models::reffs::RState;
use crate::models::tree::{abstract_dump, depth_of};
use rivia::prelude::*;
use rivia::verif::Dump;
use std::collections::{HashMap, HashSet};
use std::hash::{Hash, Hasher};
use std::sync::atomic::{AtomicU64, Ordering};
use std::sync::Arc;

pub struct SpaceCfg {
    pub name: String,
    pub ops: Vec<Op>,
    pub max_entries: usize,
    pub max_depth: usize,
    pub max_content: usize,
    pub inits: Vec<(String, Vec<Op>)>,
    pub max_states: usize,
    pub hang_secs: u64,
}

pub struct StateRec {
    pub fs: Memfs,
    pub parent: u32, // u32::MAX for initial states
    pub op: u32,
    pub depth: u32,
    pub init: u32,
}

pub struct Space<'a> {
    pub cfg: &'a SpaceCfg,
    pub states: Vec<StateRec>,
}

impl<'a> Space<'a> {
    /// operation indices leading from the initial state to state idx
    pub fn history(&self, idx: usize) -> (usize, Vec<usize>) {
        let mut h = vec![];
        let mut cur = idx;
        while self.states[cur].parent != u32::MAX {
            h.push(self.states[cur].op as usize);
            cur = self.states[cur].parent as usize;
        }
        h.reverse();
        (self.states[cur].init as usize, h)
    }
    pub fn case_json(&self, idx: usize, call: Option<usize>) -> J {
        let (init, h) = self.history(idx);
        let mut o = vec![
            ("config", J::s(&self.cfg.name)),
            ("init", J::i(init as i64)),
            ("init_desc", J::s(&self.cfg.inits[init].0)),
            ("history_idx", J::arr(h.iter().map(|&i| J::i(i as i64)))),
            ("history", J::arr(h.iter().map(|&i| J::s(self.cfg.ops[i].render())))),
        ];
        if let Some(c) = call {
            o.push(("call_idx", J::i(c as i64)));
            o.push(("call", J::s(self.cfg.ops[c].render())));
        }
        J::obj(o)
    }
    pub fn history_text(&self, idx: usize) -> String {
        let (init, h) = self.history(idx);
        let mut s = format!("init[{}]", self.cfg.inits[init].0);
        for i in h {
            s.push_str("; ");
            s.push_str(&self.cfg.ops[i].render());
        }
        s
    }
}

pub struct Trans<'a> {
    pub space: &'a Space<'a>,
    pub pre_idx: usize,
    pub pre_fs: &'a Memfs,
    pub pre_dump: &'a Dump,
    pub pre_abs: &'a Result<RState, String>,
    pub op_idx: usize,
    pub op: &'a Op,
    pub out: &'a Outcome,
    pub post_fs: &'a Memfs,
    pub post_dump: &'a Dump,
    pub post_abs: &'a Result<RState, String>,
    pub post_broken: &'a [(&'static str, String)],
}

pub struct StateView<'a> {
    pub space: &'a Space<'a>,
    pub idx: usize,
    pub fs: &'a Memfs,
    pub dump: &'a Dump,
    pub abs: &'a Result<RState, String>,
    pub cut: bool,
}

pub trait Observer: Sync {
    fn transition(&self, _t: &Trans) {}
    fn state(&self, _s: &StateView) {}
}

#[derive(Default, Debug, Clone)]
pub struct SpaceStats {
    pub states: u64,
    pub expanded: u64,
    pub cut_states: u64,
    pub transitions: u64,
    pub malformed_successors: u64,
    pub order_dependent_cuts: u64,
    pub failed_calls: u64,
    pub panics: u64,
    pub levels: u64,
    pub capped: bool,
    pub max_depth_reached: u64,
}

pub fn dump_key(d: &Dump) -> u128 {
    let mut h1 = std::collections::hash_map::DefaultHasher::new();
    1u64.hash(&mut h1);
    d.hash(&mut h1);
    let mut h2 = std::collections::hash_map::DefaultHasher::new();
    0x9E3779B97F4A7C15u64.hash(&mut h2);
    d.hash(&mut h2);
    ((h1.finish() as u128) << 64) | h2.finish() as u128
}

pub fn abs_of(d: &Dump) -> Result<RState, String> {
    abstract_dump(d).map(|tree| RState { tree, cwd: d.cwd.clone() })
}

fn within_bounds(cfg: &SpaceCfg, d: &Dump) -> bool {
    let n = d.entries.len().saturating_sub(1);
    n <= cfg.max_entries && d.entries.iter().all(|e| depth_of(&e.key) <= cfg.max_depth) && d.files.iter().all(|f| f.data.len() <= cfg.max_content)
}

/// multi-entry operations whose failure may leave a hash-order dependent partial result
pub fn order_sensitive(op: &Op) -> bool {
    matches!(op, Op::Copy(..) | Op::CopyB(..) | Op::Chmod(..) | Op::ChmodB(..) | Op::Chown(..) | Op::ChownB(..) | Op::RemoveAll(..))
}

struct Cand {
    key: u128,
    fs: Memfs,
    parent: u32,
    op: u32,
}

pub fn explore(cfg: &SpaceCfg, threads: usize, obs: &dyn Observer) -> SpaceStats {
    let mut stats = SpaceStats::default();
    let mut space = Space { cfg, states: vec![] };
    let mut visited: HashMap<u128, u32> = HashMap::new();

    // initial states: built through the API from a fresh filesystem
    for (i, (desc, setup)) in cfg.inits.iter().enumerate() {
        let fs = Memfs::new();
        for op in setup {
            let o = apply(&fs, op);
            if !o.ok {
                eprintln!("machinery: initial state {:?} of {} cannot be built: {} -> {}", desc, cfg.name, op.render(), o.brief());
                std::process::exit(2);
            }
        }
        let key = dump_key(&fs.verif_dump());
        if visited.contains_key(&key) {
            continue;
        }
        visited.insert(key, space.states.len() as u32);
        space.states.push(StateRec { fs, parent: u32::MAX, op: 0, depth: 0, init: i as u32 });
    }

    let transitions = AtomicU64::new(0);
    let malformed = AtomicU64::new(0);
    let odc = AtomicU64::new(0);
    let failed = AtomicU64::new(0);
    let panics = AtomicU64::new(0);
    let cut_states = AtomicU64::new(0);
    let expanded = AtomicU64::new(0);

    let progress = Progress::new();
    let hang_cfg = cfg.name.clone();
    let wd = spawn_watchdog(progress.clone(), std::time::Duration::from_secs(cfg.hang_secs), move |slot, case| {
        // a call that does not return: report and terminate the process (the thread cannot be killed)
        let pre = (case >> 20) as usize;
        let op = (case & 0xFFFFF) as usize;
        HANG_REPORT.with_hang(&hang_cfg, slot, pre, op);
    });

    let mut lo = 0usize;
    while lo < space.states.len() {
        let hi = space.states.len();
        stats.levels += 1;
        let frontier: Vec<usize> = (lo..hi).collect();
        let cands: Vec<Vec<Cand>> = {
            let space_ref = &space;
            let visited_ref = &visited;
            let out: std::sync::Mutex<Vec<Vec<Cand>>> = std::sync::Mutex::new(vec![]);
            HANG_REPORT.set_space(space_ref);
            par_each(threads, &frontier, |slot, _i, &idx| {
                let rec = &space_ref.states[idx];
                let dump = rec.fs.verif_dump();
                let abs = abs_of(&dump);
                let cut = !within_bounds(cfg, &dump);
                obs.state(&StateView { space: space_ref, idx, fs: &rec.fs, dump: &dump, abs: &abs, cut });
                if cut {
                    cut_states.fetch_add(1, Ordering::Relaxed);
                    return;
                }
                expanded.fetch_add(1, Ordering::Relaxed);
                let mut local: Vec<Cand> = vec![];
                let mut local_keys: HashSet<u128> = HashSet::new();
                for (oi, op) in cfg.ops.iter().enumerate() {
                    progress.begin(slot, ((idx as u64) << 20) | oi as u64);
                    let fs2 = rec.fs.verif_deep_clone();
                    let out = apply(&fs2, op);
                    progress.end(slot);
                    transitions.fetch_add(1, Ordering::Relaxed);
                    if !out.ok {
                        failed.fetch_add(1, Ordering::Relaxed);
                    }
                    if out.panicked() {
                        panics.fetch_add(1, Ordering::Relaxed);
                    }
                    let dump2 = fs2.verif_dump();
                    let broken = invariants::check(&dump2);
                    let abs2 = if broken.is_empty() { abs_of(&dump2) } else { Err(format!("{}: {}", broken[0].0, broken[0].1)) };
                    obs.transition(&Trans {
                        space: space_ref,
                        pre_idx: idx,
                        pre_fs: &rec.fs,
                        pre_dump: &dump,
                        pre_abs: &abs,
                        op_idx: oi,
                        op,
                        out: &out,
                        post_fs: &fs2,
                        post_dump: &dump2,
                        post_abs: &abs2,
                        post_broken: &broken,
                    });
                    if !broken.is_empty() || abs2.is_err() {
                        malformed.fetch_add(1, Ordering::Relaxed);
                        continue;
                    }
                    if dump2 == dump {
                        continue;
                    }
                    if !within_bounds(cfg, &dump2) {
                        // beyond the namespace bound: checked as a successor, never stored or expanded
                        cut_states.fetch_add(1, Ordering::Relaxed);
                        continue;
                    }
                    if !out.ok && order_sensitive(op) {
                        odc.fetch_add(1, Ordering::Relaxed);
                        continue;
                    }
                    let key = dump_key(&dump2);
                    if visited_ref.contains_key(&key) || !local_keys.insert(key) {
                        continue;
                    }
                    local.push(Cand { key, fs: fs2, parent: idx as u32, op: oi as u32 });
                }
                out.lock().unwrap().push(local);
            });
            HANG_REPORT.clear_space();
            out.into_inner().unwrap()
        };
        let mut all: Vec<Cand> = cands.into_iter().flatten().collect();
        all.sort_by_key(|c| (c.parent, c.op));
        let depth = space.states[lo].depth + 1;
        for c in all {
            if visited.contains_key(&c.key) {
                continue;
            }
            if space.states.len() >= cfg.max_states {
                stats.capped = true;
                break;
            }
            visited.insert(c.key, space.states.len() as u32);
            let init = space.states[c.parent as usize].init;
            space.states.push(StateRec { fs: c.fs, parent: c.parent, op: c.op, depth, init });
        }
        stats.max_depth_reached = depth as u64 - if space.states.len() == hi { 1 } else { 0 };
        lo = hi;
        if stats.capped {
            // still run state checks on what is there? stop: a capped run is reported as such
            break;
        }
    }
    wd.store(true, Ordering::Relaxed);
    stats.states = space.states.len() as u64;
    stats.transitions = transitions.load(Ordering::Relaxed);
    stats.malformed_successors = malformed.load(Ordering::Relaxed);
    stats.order_dependent_cuts = odc.load(Ordering::Relaxed);
    stats.failed_calls = failed.load(Ordering::Relaxed);
    stats.panics = panics.load(Ordering::Relaxed);
    stats.cut_states = cut_states.load(Ordering::Relaxed);
    stats.expanded = expanded.load(Ordering::Relaxed);
    stats
}

// ---------------------------------------------------------------------------------------------
// Hang reporting: the watchdog needs to describe the stuck (state, call); the space lives on the
// explorer's stack, so a raw pointer is published for the duration of a level (read-only use).
// ---------------------------------------------------------------------------------------------
pub struct HangReport {
    space: std::sync::atomic::AtomicUsize,
    prop: std::sync::Mutex<String>,
}

pub static HANG_REPORT: HangReport = HangReport { space: std::sync::atomic::AtomicUsize::new(0), prop: std::sync::Mutex::new(String::new()) };

impl HangReport {
    pub fn set_prop(&self, p: &str) {
        *self.prop.lock().unwrap() = p.to_string();
    }
    fn set_space(&self, s: &Space) {
        self.space.store(s as *const Space as usize, Ordering::SeqCst);
    }
    fn clear_space(&self) {
        self.space.store(0, Ordering::SeqCst);
    }
    fn with_hang(&self, cfg: &str, slot: usize, pre: usize, op: usize) {
        let prop = self.prop.lock().unwrap().clone();
        let ptr = self.space.load(Ordering::SeqCst);
        let (text, case) = if ptr != 0 {
            // SAFETY: the pointer is published only while the level's scoped threads run and the
            // space is not mutated during a level; we only read.
            let space: &Space = unsafe { &*(ptr as *const Space) };
            let opn = space.cfg.ops.get(op).map(|o| o.render()).unwrap_or_default();
            (format!("{} then {}", space.history_text(pre), opn), space.case_json(pre, Some(op)))
        } else {
            (format!("state {} op {}", pre, op), J::Null)
        };
        let sig = format!("hang {}", case.get("call").and_then(|c| c.as_str()).map(|c| c.split('(').next().unwrap_or("").to_string()).unwrap_or_default());
        let detail = format!("call did not return within the watchdog limit (config {}, worker {}): {}", cfg, slot, text);
        crate::common::report::vio(&sig, || detail.clone(), || case.clone());
        eprintln!("HANG: {}", detail);
        // finish from the watchdog thread: write replay + evidence with what we have, exit
        let code = crate::props::hang_exit(&prop, &sig);
        std::process::exit(code);
    }
}

pub fn arc_progress() -> Arc<Progress> {
    Progress::new()
}

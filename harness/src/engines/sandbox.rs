//! Private sandbox directories on tmpfs for the Stdfs halves of the checks.
use std::os::unix::fs::PermissionsExt;
use std::path::Path;

pub struct Sandbox {
    pub base: String,
    pub root: String,
}

fn shm_base() -> String {
    if Path::new("/dev/shm").is_dir() {
        "/dev/shm".to_string()
    } else {
        std::env::var("TMPDIR").unwrap_or_else(|_| "/tmp".to_string())
    }
}

/// remove sandboxes left behind by killed runs (their pid no longer exists)
pub fn sweep_stale() {
    let base = shm_base();
    if let Ok(rd) = std::fs::read_dir(&base) {
        for e in rd.flatten() {
            let name = e.file_name().to_string_lossy().into_owned();
            if let Some(rest) = name.strip_prefix("rvmc.") {
                let pid: u32 = rest.split('.').next().and_then(|x| x.parse().ok()).unwrap_or(0);
                if pid != 0 && !Path::new(&format!("/proc/{}", pid)).exists() {
                    force_remove(&e.path().to_string_lossy());
                }
            }
        }
    }
}

pub fn force_remove(p: &str) {
    fn open_up(p: &Path) {
        if let Ok(md) = std::fs::symlink_metadata(p) {
            if md.is_dir() {
                let _ = std::fs::set_permissions(p, std::fs::Permissions::from_mode(0o700));
                if let Ok(rd) = std::fs::read_dir(p) {
                    for e in rd.flatten() {
                        open_up(&e.path());
                    }
                }
            }
        }
    }
    open_up(Path::new(p));
    let _ = std::fs::remove_dir_all(p);
}

impl Sandbox {
    /// `sb` is the name of the sandbox root below the private base dir
    pub fn new(tag: &str) -> Sandbox {
        let base = format!("{}/rvmc.{}.{}", shm_base(), std::process::id(), tag);
        force_remove(&base);
        std::fs::create_dir_all(&base).expect("create sandbox base");
        let _ = std::fs::set_permissions(&base, std::fs::Permissions::from_mode(0o755));
        let root = format!("{}/sb", base);
        std::fs::create_dir(&root).expect("create sandbox root");
        Sandbox { base, root }
    }
    /// wipe and recreate the sandbox root (cwd is moved to the base first so it never dangles)
    pub fn reset(&self) {
        let _ = std::env::set_current_dir(&self.base);
        force_remove(&self.root);
        std::fs::create_dir(&self.root).expect("recreate sandbox root");
        let _ = std::fs::set_permissions(&self.root, std::fs::Permissions::from_mode(0o755));
    }
}

impl Drop for Sandbox {
    fn drop(&mut self) {
        let _ = std::env::set_current_dir("/");
        force_remove(&self.base);
    }
}

/// Confine the filesystem effects of this process to a private tmpfs: the Stdfs halves run rivia's
/// real-filesystem backend as root, and a changed rivia may resolve a path somewhere else (a
/// `remove_all` that lands on "/" instead of the sandbox). In a private mount namespace a fresh tmpfs
/// is mounted over /dev/shm and every other mount is remounted read-only, so nothing outside the
/// sandbox can be written or deleted whatever the code under test does. Best effort: without
/// CAP_SYS_ADMIN (or as a non-root worker) the process runs as before.
pub fn isolate_filesystem() -> bool {
    use std::ffi::CString;
    unsafe {
        if libc::geteuid() != 0 || !Path::new("/dev/shm").is_dir() || std::env::var("VERIF_NO_ISOLATION").is_ok() {
            return false;
        }
        if libc::unshare(libc::CLONE_NEWNS) != 0 {
            return false;
        }
        let root = CString::new("/").unwrap();
        let none = CString::new("none").unwrap();
        if libc::mount(none.as_ptr(), root.as_ptr(), std::ptr::null(), libc::MS_REC | libc::MS_PRIVATE, std::ptr::null()) != 0 {
            return false;
        }
        let shm = CString::new("/dev/shm").unwrap();
        let tmpfs = CString::new("tmpfs").unwrap();
        let opts = CString::new("mode=1777").unwrap();
        if libc::mount(tmpfs.as_ptr(), shm.as_ptr(), tmpfs.as_ptr(), libc::MS_NOSUID | libc::MS_NODEV, opts.as_ptr() as *const libc::c_void) != 0 {
            return false;
        }
        let info = std::fs::read_to_string("/proc/self/mountinfo").unwrap_or_default();
        let mut seen = std::collections::BTreeSet::new();
        for line in info.lines() {
            let mp = match line.split(' ').nth(4) {
                Some(x) => x.replace("\\040", " "),
                None => continue,
            };
            if mp == "/dev/shm" || mp.starts_with("/dev/shm/") || !seen.insert(mp.clone()) {
                continue;
            }
            if let Ok(c) = CString::new(mp) {
                // errors (e.g. mounts that refuse a read-only bind remount) are ignored: best effort
                libc::mount(std::ptr::null(), c.as_ptr(), std::ptr::null(), libc::MS_REMOUNT | libc::MS_BIND | libc::MS_RDONLY, std::ptr::null());
            }
        }
        true
    }
}

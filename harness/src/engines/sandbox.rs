//! Private sandbox directories on tmpfs for the Stdfs halves of the checks.
use std::os::unix::fs::PermissionsExt;
use std::path::Path;

pub struct Sandbox {
    pub base: String,
    pub root: String,
}

fn shm_base() -> String {
    if Path::new("/dev/shm").is_dir() {
        "/dev/shm".to_string()
    } else {
        std::env::var("TMPDIR").unwrap_or_else(|_| "/tmp".to_string())
    }
}

/// remove sandboxes left behind by killed runs (their pid no longer exists)
pub fn sweep_stale() {
    let base = shm_base();
    if let Ok(rd) = std::fs::read_dir(&base) {
        for e in rd.flatten() {
            let name = e.file_name().to_string_lossy().into_owned();
            if let Some(rest) = name.strip_prefix("rvmc.") {
                let pid: u32 = rest.split('.').next().and_then(|x| x.parse().ok()).unwrap_or(0);
                if pid != 0 && !Path::new(&format!("/proc/{}", pid)).exists() {
                    force_remove(&e.path().to_string_lossy());
                }
            }
        }
    }
}

pub fn force_remove(p: &str) {
    fn open_up(p: &Path) {
        if let Ok(md) = std::fs::symlink_metadata(p) {
            if md.is_dir() {
                let _ = std::fs::set_permissions(p, std::fs::Permissions::from_mode(0o700));
                if let Ok(rd) = std::fs::read_dir(p) {
                    for e in rd.flatten() {
                        open_up(&e.path());
                    }
                }
            }
        }
    }
    open_up(Path::new(p));
    let _ = std::fs::remove_dir_all(p);
}

impl Sandbox {
    /// `sb` is the name of the sandbox root below the private base dir
    pub fn new(tag: &str) -> Sandbox {
        let base = format!("{}/rvmc.{}.{}", shm_base(), std::process::id(), tag);
        force_remove(&base);
        std::fs::create_dir_all(&base).expect("create sandbox base");
        let _ = std::fs::set_permissions(&base, std::fs::Permissions::from_mode(0o755));
        let root = format!("{}/sb", base);
        std::fs::create_dir(&root).expect("create sandbox root");
        Sandbox { base, root }
    }
    /// wipe and recreate the sandbox root (cwd is moved to the base first so it never dangles)
    pub fn reset(&self) {
        let _ = std::env::set_current_dir(&self.base);
        force_remove(&self.root);
        std::fs::create_dir(&self.root).expect("recreate sandbox root");
        let _ = std::fs::set_permissions(&self.root, std::fs::Permissions::from_mode(0o755));
    }
}

impl Drop for Sandbox {
    fn drop(&mut self) {
        let _ = std::env::set_current_dir("/");
        force_remove(&self.base);
    }
}

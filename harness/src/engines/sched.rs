//! E2: stateless exhaustive exploration of critical-section interleavings of real threads that
//! share one Memfs.
//!
//! Worker OS threads register a thread-local lock-event hook (rivia cfg `rivia_verif`). Execution is
//! cooperative: exactly one worker runs at a time; when a worker is about to acquire the Memfs lock
//! (`AcquireRead` / `AcquireWrite` event, emitted *before* the real lock call) it parks and the
//! controller decides who proceeds. Because every access to the shared state happens under the one
//! lock, the order of critical sections determines the execution, so enumerating all orders
//! enumerates all behaviours. Schedules are enumerated depth-first by re-execution.
use crate::models::ops::{apply, Op, Outcome};
use rivia::prelude::*;
use rivia::verif::{set_lock_hook, LockEvent};
use std::sync::{Arc, Condvar, Mutex};

#[derive(Clone, Copy, PartialEq, Eq, Debug)]
enum Status {
    Idle,
    Parked,
    Running,
    Done,
}

pub const NESTED_MSG: &str = "E2-NESTED-ACQUISITION";

struct Shared {
    m: Mutex<St>,
    cv: Condvar,
}

struct St {
    status: Vec<Status>,
    holds: Vec<bool>,
    turn: Option<usize>,
    /// per thread: job to run (program, filesystem handle)
    jobs: Vec<Option<(Vec<Op>, Memfs)>>,
    /// per thread: results of the finished job
    results: Vec<Vec<OpRec>>,
    /// global critical-section counter
    step: u64,
    /// per thread: current op bookkeeping
    cur_first: Vec<Option<u64>>,
    cur_last: Vec<Option<u64>>,
    sections: u64,
    nested: Vec<String>,
    shutdown: bool,
    /// kernel thread ids of the worker threads (stuck-or-starved decision of the stall guard)
    tids: Vec<i32>,
}

#[derive(Clone, Debug)]
pub struct OpRec {
    pub out: Outcome,
    /// step number of the op's first / last critical section (None: the op took no lock)
    pub first: Option<u64>,
    pub last: Option<u64>,
    /// value of the global step counter when the op returned
    pub ret_step: u64,
    pub inv_step: u64,
}

pub struct Explorer {
    sh: Arc<Shared>,
    handles: Vec<std::thread::JoinHandle<()>>,
    n: usize,
}

#[derive(Debug)]
pub struct Execution {
    /// thread id chosen at each choice point
    pub schedule: Vec<u8>,
    /// number of alternatives that were available at each choice point
    pub fanout: Vec<u8>,
    /// was the thread running before this choice point still enabled (switching away = preemption)
    pub could_continue: Vec<bool>,
    pub recs: Vec<Vec<OpRec>>,
    pub sections: u64,
    pub nested: Vec<String>,
    pub fs: Memfs,
}

impl Explorer {
    pub fn new(n: usize) -> Explorer {
        let sh = Arc::new(Shared {
            m: Mutex::new(St {
                status: vec![Status::Idle; n],
                holds: vec![false; n],
                turn: None,
                jobs: (0..n).map(|_| None).collect(),
                results: (0..n).map(|_| vec![]).collect(),
                step: 0,
                cur_first: vec![None; n],
                cur_last: vec![None; n],
                sections: 0,
                nested: vec![],
                shutdown: false,
                tids: vec![0; n],
            }),
            cv: Condvar::new(),
        });
        let mut handles = vec![];
        for t in 0..n {
            let sh2 = sh.clone();
            handles.push(
                std::thread::Builder::new()
                    .stack_size(16 << 20)
                    .spawn(move || worker(t, sh2))
                    .expect("spawn sched worker"),
            );
        }
        Explorer { sh, handles, n }
    }

    /// Run one execution: replay `prefix` (thread ids), then always take the first enabled thread in
    /// canonical order (the running thread first if it can continue, then ascending ids).
    /// Returns Err on a prefix divergence (hard machinery error).
    pub fn run(&self, init: &Memfs, programs: &[Vec<Op>], prefix: &[u8]) -> Result<Execution, String> {
        assert!(programs.len() <= self.n);
        let fs = init.verif_deep_clone();
        let nt = programs.len();
        {
            let mut st = self.sh.m.lock().unwrap();
            st.step = 0;
            st.sections = 0;
            st.nested.clear();
            st.turn = None;
            for t in 0..self.n {
                st.status[t] = if t < nt { Status::Parked } else { Status::Done };
                st.holds[t] = false;
                st.results[t].clear();
                st.cur_first[t] = None;
                st.cur_last[t] = None;
                st.jobs[t] = if t < nt { Some((programs[t].clone(), fs.verif_share())) } else { None };
            }
            // threads are parked at their virtual start; run each one alone up to its first acquire
            // (touches only thread-local data, so this is not a choice point)
        }
        self.sh.cv.notify_all();
        for t in 0..nt {
            self.grant_and_wait(t, true);
        }
        let mut schedule: Vec<u8> = vec![];
        let mut fanout: Vec<u8> = vec![];
        let mut could: Vec<bool> = vec![];
        let mut last: Option<usize> = None;
        loop {
            let enabled: Vec<usize> = {
                let st = self.sh.m.lock().unwrap();
                let mut e: Vec<usize> = vec![];
                if let Some(l) = last {
                    if st.status[l] == Status::Parked {
                        e.push(l);
                    }
                }
                for t in 0..nt {
                    if st.status[t] == Status::Parked && Some(t) != last {
                        e.push(t);
                    }
                }
                e
            };
            if enabled.is_empty() {
                break;
            }
            let i = schedule.len();
            let choice = if i < prefix.len() {
                let want = prefix[i] as usize;
                if !enabled.contains(&want) {
                    // drain the execution before reporting so the workers end in a clean state
                    self.drain(nt);
                    return Err(format!("prefix divergence at choice {}: thread {} not enabled (enabled {:?})", i, want, enabled));
                }
                want
            } else {
                enabled[0]
            };
            could.push(last.map(|l| enabled.first() == Some(&l)).unwrap_or(false));
            fanout.push(enabled.len() as u8);
            schedule.push(choice as u8);
            last = Some(choice);
            self.grant_and_wait(choice, false);
        }
        let (recs, sections, nested) = {
            let mut st = self.sh.m.lock().unwrap();
            let recs: Vec<Vec<OpRec>> = (0..nt).map(|t| std::mem::take(&mut st.results[t])).collect();
            (recs, st.sections, st.nested.clone())
        };
        Ok(Execution { schedule, fanout, could_continue: could, recs, sections, nested, fs })
    }

    fn drain(&self, nt: usize) {
        loop {
            let next = {
                let st = self.sh.m.lock().unwrap();
                (0..nt).find(|&t| st.status[t] == Status::Parked)
            };
            match next {
                Some(t) => self.grant_and_wait(t, false),
                None => break,
            }
        }
    }

    /// let thread t run until it parks again or finishes
    fn grant_and_wait(&self, t: usize, start: bool) {
        let mut st = self.sh.m.lock().unwrap();
        if !start {
            st.step += 1;
            st.sections += 1;
            let s = st.step;
            if st.cur_first[t].is_none() {
                st.cur_first[t] = Some(s);
            }
            st.cur_last[t] = Some(s);
        }
        st.status[t] = Status::Running;
        st.turn = Some(t);
        self.sh.cv.notify_all();
        let t0 = std::time::Instant::now();
        while st.turn.is_some() {
            let (g, _) = self.sh.cv.wait_timeout(st, std::time::Duration::from_secs(1)).unwrap();
            st = g;
            if st.turn.is_some() && t0.elapsed() > std::time::Duration::from_secs(STALL_SECS) {
                // stuck, or only starved of CPU on a loaded machine?
                let (tid, step0) = (st.tids[t], st.step);
                drop(st);
                let sh2 = &self.sh;
                let stuck = crate::common::par::confirm_stuck(tid, std::time::Duration::from_secs(STALL_SECS), &|| {
                    let g = sh2.m.lock().unwrap();
                    g.turn.is_some() && g.step == step0
                });
                st = self.sh.m.lock().unwrap();
                if !stuck || st.turn.is_none() {
                    continue;
                }
                // the granted thread runs alone; it neither reached its next lock event nor returned
                let msg = format!("thread {} did not reach its next lock event or return within {} s after being granted step {} (it runs alone: an endless loop, or a wait on a lock another call still holds)", t, STALL_SECS, st.step);
                drop(st);
                match ON_STALL.get() {
                    Some(h) => h(msg),
                    None => panic!("{}", msg),
                }
                std::process::exit(2);
            }
        }
    }
}

pub const STALL_SECS: u64 = 20;
/// installed by the check that drives the explorer; expected to report and end the process
pub static ON_STALL: std::sync::OnceLock<Box<dyn Fn(String) + Send + Sync>> = std::sync::OnceLock::new();

impl Drop for Explorer {
    fn drop(&mut self) {
        {
            let mut st = self.sh.m.lock().unwrap();
            st.shutdown = true;
        }
        self.sh.cv.notify_all();
        for h in self.handles.drain(..) {
            let _ = h.join();
        }
    }
}

fn worker(t: usize, sh: Arc<Shared>) {
    sh.m.lock().unwrap().tids[t] = crate::common::par::my_tid();
    let sh_hook = sh.clone();
    set_lock_hook(Some(Box::new(move |ev: LockEvent| {
        let mut st = sh_hook.m.lock().unwrap();
        match ev {
            LockEvent::Release => {
                st.holds[t] = false;
            },
            LockEvent::AcquireRead | LockEvent::AcquireWrite => {
                if st.holds[t] {
                    // nested acquisition: std RwLock may deadlock or panic here; abort the call
                    st.nested.push(format!("thread {} requested {:?} while holding a guard", t, ev));
                    st.holds[t] = false;
                    drop(st);
                    panic!("{}", NESTED_MSG);
                }
                // park until the controller grants this critical section
                st.status[t] = Status::Parked;
                st.turn = None;
                sh_hook.cv.notify_all();
                while st.turn != Some(t) {
                    st = sh_hook.cv.wait(st).unwrap();
                }
                st.holds[t] = true;
            },
        }
    })));
    loop {
        // wait for a job and for the start grant
        let job = {
            let mut st = sh.m.lock().unwrap();
            loop {
                if st.shutdown {
                    return;
                }
                if st.jobs[t].is_some() && st.turn == Some(t) {
                    break;
                }
                st = sh.cv.wait(st).unwrap();
            }
            st.jobs[t].take().unwrap()
        };
        let (prog, fs) = job;
        for op in prog.iter() {
            {
                let mut st = sh.m.lock().unwrap();
                st.cur_first[t] = None;
                st.cur_last[t] = None;
            }
            let inv_step = sh.m.lock().unwrap().step;
            let out = apply(&fs, op);
            let mut st = sh.m.lock().unwrap();
            st.holds[t] = false;
            let rec = OpRec { out, first: st.cur_first[t], last: st.cur_last[t], ret_step: st.step, inv_step };
            st.results[t].push(rec);
        }
        drop(fs);
        let mut st = sh.m.lock().unwrap();
        st.status[t] = Status::Done;
        st.turn = None;
        sh.cv.notify_all();
    }
}

/// Depth-first enumeration of all schedules of one program (optionally preemption bounded).
/// `visit` is called for every complete execution; returns (schedules, capped)
pub fn explore_program<F: FnMut(&Execution)>(
    ex: &Explorer, init: &Memfs, programs: &[Vec<Op>], preemption_bound: Option<u32>, max_schedules: u64, mut visit: F,
) -> Result<(u64, bool), String> {
    let mut count = 0u64;
    let mut capped = false;
    // explicit stack of prefixes (each explored prefix extends to one full execution)
    let mut stack: Vec<Vec<u8>> = vec![vec![]];
    while let Some(prefix) = stack.pop() {
        if count >= max_schedules {
            capped = true;
            break;
        }
        let e = ex.run(init, programs, &prefix)?;
        count += 1;
        visit(&e);
        // alternatives at every choice point after the prefix
        let mut preempts_before: Vec<u32> = Vec::with_capacity(e.schedule.len());
        let mut p = 0u32;
        let mut last: Option<u8> = None;
        for i in 0..e.schedule.len() {
            preempts_before.push(p);
            if e.could_continue[i] && last.is_some() && Some(e.schedule[i]) != last {
                p += 1;
            }
            last = Some(e.schedule[i]);
        }
        for i in (prefix.len()..e.schedule.len()).rev() {
            if e.fanout[i] <= 1 {
                continue;
            }
            // reconstruct the canonical enabled order at point i: we only know its size; alternatives
            // are "any other thread that was parked". Recover them by re-deriving from the schedule:
            // threads other than the chosen one that still have sections left at this point.
            let alts = alternatives_at(&e, i, programs.len());
            for a in alts {
                if a == e.schedule[i] {
                    continue;
                }
                if let Some(b) = preemption_bound {
                    let prev = if i == 0 { None } else { Some(e.schedule[i - 1]) };
                    let cost = preempts_before[i] + if e.could_continue[i] && prev.is_some() && prev != Some(a) { 1 } else { 0 };
                    if cost > b {
                        continue;
                    }
                }
                let mut np = e.schedule[..i].to_vec();
                np.push(a);
                stack.push(np);
            }
        }
    }
    Ok((count, capped))
}

/// threads that were enabled (parked with work left) at choice point i of the execution: every thread
/// that is scheduled at some point >= i (a thread that still has a critical section ahead of it is
/// parked at its acquire point, because all threads advance to their first acquire before choices
/// start and park again at each following acquire).
fn alternatives_at(e: &Execution, i: usize, nthreads: usize) -> Vec<u8> {
    let mut v: Vec<u8> = vec![];
    for t in 0..nthreads as u8 {
        if e.schedule[i..].contains(&t) {
            v.push(t);
        }
    }
    v
}

pub fn worker_main(_args: &[String]) -> i32 {
    eprintln!("machinery: unknown worker");
    2
}

pub mod sandbox;
pub mod workers;

pub fn worker_main(args: &[String]) -> i32 {
    let name = args.first().map(|x| x.as_str()).unwrap_or("");
    match name {
        _ => {
            eprintln!("machinery: unknown worker {:?}", name);
            2
        },
    }
}

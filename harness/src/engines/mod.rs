pub mod sandbox;
pub mod sched;
pub mod space;
pub mod workers;

pub fn worker_main(args: &[String]) -> i32 {
    let name = args.first().map(|x| x.as_str()).unwrap_or("");
    match name {
        "c02" => workers::worker_entry(args, crate::props::c02::worker),
        "c05-abs" => workers::worker_entry(args, crate::props::c05::worker_abs),
        "c05-spell" => workers::worker_entry(args, crate::props::c05::worker_spell),
        "c06" => workers::worker_entry(args, crate::props::c06::worker),
        "c09" => workers::worker_entry(args, crate::props::c09::worker),
        "c07" => workers::worker_entry(args, crate::props::c07::worker),
        "c08_stdfs" => workers::worker_entry(args, crate::props::c08::worker_stdfs),
        "c10" => workers::worker_entry(args, crate::props::c10::worker),
        "c11-stdfs" => workers::worker_entry(args, crate::props::c11::stdfs_worker),
        "c12" => workers::worker_entry(args, crate::props::c12::worker),
        "c13" => workers::worker_entry(args, crate::props::c13::worker),
        "c20" => workers::worker_entry(args, crate::props::c20::worker),
        "c17" => workers::worker_entry(args, crate::props::c17::worker),
        "c18" => workers::worker_entry(args, crate::props::c18::worker),
        _ => {
            eprintln!("machinery: unknown worker {:?}", name);
            2
        },
    }
}

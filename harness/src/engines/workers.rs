//! Re-exec'd single-threaded worker processes (Stdfs and env dependent checks need process-global
//! cwd / umask / environment / uid, so they cannot share a process with other workers).
use crate::common::json::{self, J};
use crate::common::report::{vio, Ctx, Tier};
use std::collections::BTreeMap;
use std::io::{BufRead, BufReader, Write};
use std::process::{Command, Stdio};

pub struct WorkerCtx {
    pub name: String,
    pub shard: u64,
    pub nshards: u64,
    pub tier: Tier,
    pub seed: u64,
    pub args: Vec<String>,
    pub counters: BTreeMap<String, u64>,
    vios: BTreeMap<String, (u64, String, J)>,
    samples: Vec<J>,
}

impl WorkerCtx {
    pub fn mine(&self, idx: u64) -> bool {
        crate::common::par::WORKER_BEAT.fetch_add(1, std::sync::atomic::Ordering::Relaxed);
        crate::common::par::WORKER_UNIT.store(idx, std::sync::atomic::Ordering::Relaxed);
        idx % self.nshards == self.shard
    }
    pub fn count(&mut self, name: &str, n: u64) {
        crate::common::par::WORKER_BEAT.fetch_add(1, std::sync::atomic::Ordering::Relaxed);
        *self.counters.entry(name.to_string()).or_insert(0) += n;
    }
    pub fn vio<D: FnOnce() -> String, C: FnOnce() -> J>(&mut self, sig: &str, detail: D, case: C) {
        if let Some(r) = self.vios.get_mut(sig) {
            r.0 += 1;
            return;
        }
        self.vios.insert(sig.to_string(), (1, detail(), case()));
    }
    pub fn sample(&mut self, j: J) {
        if self.samples.len() < 4 {
            self.samples.push(j);
        }
    }
    pub fn arg(&self, i: usize) -> &str {
        self.args.get(i).map(|x| x.as_str()).unwrap_or("")
    }
    /// flush partial results (used before a deliberate exit, e.g. from the watchdog)
    pub fn flush(&mut self) {
        let out = std::io::stdout();
        let mut o = out.lock();
        for (k, v) in &self.counters {
            let _ = writeln!(o, "C\t{}", J::obj([("k", J::s(k)), ("n", J::i(*v))]).to_string());
        }
        for (sig, (n, detail, case)) in &self.vios {
            let _ = writeln!(o, "V\t{}", J::obj([("sig", J::s(sig)), ("n", J::i(*n)), ("detail", J::s(detail)), ("case", case.clone())]).to_string());
        }
        for s in &self.samples {
            let _ = writeln!(o, "S\t{}", s.to_string());
        }
        let _ = writeln!(o, "DONE");
        let _ = o.flush();
        self.counters.clear();
        self.vios.clear();
        self.samples.clear();
    }
}

static IN_WORKER: std::sync::atomic::AtomicBool = std::sync::atomic::AtomicBool::new(false);
pub fn in_worker() -> bool {
    IN_WORKER.load(std::sync::atomic::Ordering::Relaxed)
}

/// Worker side entry: parse the common argument prefix and hand over to `f`
pub fn worker_entry(args: &[String], f: fn(&mut WorkerCtx)) -> i32 {
    // args: <name> <shard> <nshards> <tier> <seed> [extra...]
    if args.len() < 5 {
        eprintln!("machinery: bad worker args {:?}", args);
        return 2;
    }
    let mut w = WorkerCtx {
        name: args[0].clone(),
        shard: args[1].parse().unwrap_or(0),
        nshards: args[2].parse().unwrap_or(1),
        tier: if args[3] == "thorough" { Tier::Thorough } else { Tier::Quick },
        seed: args[4].parse().unwrap_or(1),
        args: args[5..].to_vec(),
        counters: BTreeMap::new(),
        vios: BTreeMap::new(),
        samples: vec![],
    };
    IN_WORKER.store(true, std::sync::atomic::Ordering::Relaxed);
    crate::common::par::quiet_panics();
    // from here on this process can write to (and delete from) a private tmpfs only
    crate::engines::sandbox::isolate_filesystem();
    if let Some(uid) = std::env::var("RVMC_WORKER_UID").ok().and_then(|x| x.parse::<u32>().ok()) {
        std::env::remove_var("RVMC_WORKER_UID");
        unsafe {
            if libc::setgroups(0, std::ptr::null()) != 0 || libc::setgid(uid) != 0 || libc::setuid(uid) != 0 {
                eprintln!("machinery: worker cannot switch to uid {}", uid);
                return 2;
            }
            // the parent-death signal is cleared by the credential change
            libc::prctl(libc::PR_SET_PDEATHSIG, libc::SIGKILL);
            if libc::getppid() == 1 {
                return 2;
            }
        }
    }
    // stall guard: the worker loops bump a heartbeat at every work unit; a unit normally takes
    // milliseconds. No beat within the limit = a call into rivia that does not return.
    {
        let name = w.name.clone();
        let main_tid = crate::common::par::my_tid();
        std::thread::spawn(move || {
            use std::sync::atomic::Ordering;
            let limit = crate::common::par::stall_limit();
            let mut last = (u64::MAX, std::time::Instant::now());
            loop {
                std::thread::sleep(std::time::Duration::from_secs(1));
                let b = crate::common::par::WORKER_BEAT.load(Ordering::Relaxed);
                if b != last.0 {
                    last = (b, std::time::Instant::now());
                } else if last.1.elapsed() > limit {
                    if !crate::common::par::confirm_stuck(main_tid, limit, &|| crate::common::par::WORKER_BEAT.load(Ordering::Relaxed) == b) {
                        last = (u64::MAX, std::time::Instant::now());
                        continue;
                    }
                    let unit = crate::common::par::WORKER_UNIT.load(Ordering::Relaxed);
                    let line = J::obj([
                        ("sig", J::s(format!("{} worker · hang (a call into rivia does not return)", name))),
                        ("n", J::i(1)),
                        ("detail", J::s(format!("worker {} made no progress for {} s while processing work unit {}", name, limit.as_secs(), unit))),
                        ("case", J::obj([("part", J::s("hang")), ("worker", J::s(&name)), ("unit", J::i(unit as i64))])),
                    ]);
                    println!("V\t{}", line.to_string());
                    println!("DONE");
                    std::process::exit(0);
                }
            }
        });
    }
    f(&mut w);
    w.flush();
    0
}

#[derive(Default)]
pub struct Gathered {
    pub counters: BTreeMap<String, u64>,
    pub samples: Vec<J>,
    pub failed: Vec<String>,
}

impl Gathered {
    pub fn c(&self, k: &str) -> u64 {
        *self.counters.get(k).unwrap_or(&0)
    }
}

pub struct Launch {
    pub name: String,
    pub nshards: u64,
    pub extra: Vec<String>,
    /// run the worker under this uid/gid (the parent must be root)
    pub uid: Option<u32>,
    /// explicit environment; None = inherit
    pub env: Option<Vec<(String, String)>>,
}

/// Parent side: start the workers, collect their output, feed violations into the collector.
pub fn run_workers(ctx: &Ctx, l: &Launch, g: &mut Gathered) {
    let exe = std::env::current_exe().expect("current_exe");
    let mut children = vec![];
    for shard in 0..l.nshards {
        let mut cmd = Command::new(&exe);
        cmd.arg("worker")
            .arg(&l.name)
            .arg(shard.to_string())
            .arg(l.nshards.to_string())
            .arg(ctx.tier.name())
            .arg(ctx.seed.to_string())
            .args(&l.extra)
            .stdin(Stdio::null())
            .stdout(Stdio::piped())
            .stderr(Stdio::piped());
        if let Some(env) = &l.env {
            cmd.env_clear();
            for (k, v) in env {
                cmd.env(k, v);
            }
        }
        if let Some(uid) = l.uid {
            // the worker confines its filesystem first (needs root) and drops to this uid itself
            cmd.env("RVMC_WORKER_UID", uid.to_string());
        }
        unsafe {
            // a worker must not outlive the check process that started it
            use std::os::unix::process::CommandExt;
            cmd.pre_exec(|| {
                libc::prctl(libc::PR_SET_PDEATHSIG, libc::SIGKILL);
                Ok(())
            });
        }
        match cmd.spawn() {
            Ok(c) => children.push((shard, c)),
            Err(e) => g.failed.push(format!("spawn shard {}: {}", shard, e)),
        }
    }
    // read all outputs concurrently (pipes could fill otherwise)
    let results: Vec<(u64, Vec<String>, String, Option<i32>)> = std::thread::scope(|s| {
        let hs: Vec<_> = children
            .into_iter()
            .map(|(shard, mut c)| {
                s.spawn(move || {
                    let out = c.stdout.take().unwrap();
                    let mut err = c.stderr.take().unwrap();
                    let eh = std::thread::spawn(move || {
                        let mut s = String::new();
                        let _ = std::io::Read::read_to_string(&mut err, &mut s);
                        s
                    });
                    let lines: Vec<String> = BufReader::new(out).lines().map_while(|l| l.ok()).collect();
                    let st = c.wait().ok().and_then(|s| s.code());
                    (shard, lines, eh.join().unwrap_or_default(), st)
                })
            })
            .collect();
        hs.into_iter().map(|h| h.join().unwrap()).collect()
    });
    for (shard, lines, stderr, status) in results {
        let mut done = false;
        for line in lines {
            if line == "DONE" {
                done = true;
                continue;
            }
            let (tag, body) = match line.split_once('\t') {
                Some(x) => x,
                None => continue,
            };
            let j = match json::parse(body) {
                Ok(j) => j,
                Err(e) => {
                    g.failed.push(format!("shard {} unparsable line: {} ({})", shard, body, e));
                    continue;
                },
            };
            match tag {
                "C" => {
                    let k = j.get("k").and_then(|x| x.as_str()).unwrap_or("").to_string();
                    *g.counters.entry(k).or_insert(0) += j.get("n").and_then(|x| x.as_i64()).unwrap_or(0) as u64;
                },
                "V" => {
                    let sig = j.get("sig").and_then(|x| x.as_str()).unwrap_or("").to_string();
                    let n = j.get("n").and_then(|x| x.as_i64()).unwrap_or(1);
                    let detail = j.get("detail").and_then(|x| x.as_str()).unwrap_or("").to_string();
                    let case = j.get("case").cloned().unwrap_or(J::Null);
                    for _ in 0..n.min(1000) {
                        let (d2, c2) = (detail.clone(), case.clone());
                        vio(&sig, move || d2, move || c2);
                    }
                },
                "S" => {
                    if g.samples.len() < 6 {
                        g.samples.push(j);
                    }
                },
                _ => {},
            }
        }
        if !done || status != Some(0) {
            g.failed.push(format!(
                "worker {} shard {} ended abnormally (status {:?}, done={}): {}",
                l.name,
                shard,
                status,
                done,
                stderr.lines().rev().take(5).collect::<Vec<_>>().join(" | ")
            ));
        }
    }
}

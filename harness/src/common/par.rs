//! Parallel helpers, progress tracking and the hang watchdog.
use std::sync::atomic::{AtomicBool, AtomicU64, AtomicUsize, Ordering};
use std::sync::Arc;
use std::time::{Duration, Instant};

pub fn default_threads() -> usize {
    std::env::var("VERIF_THREADS")
        .ok()
        .and_then(|x| x.parse().ok())
        .unwrap_or_else(|| std::thread::available_parallelism().map(|x| x.get()).unwrap_or(4))
        .max(1)
}

pub const MAX_SLOTS: usize = 256;

/// Per worker progress slots read by the watchdog
pub struct Progress {
    pub busy: Vec<AtomicBool>,
    pub case: Vec<AtomicU64>,
    pub tick: Vec<AtomicU64>,
}

impl Progress {
    pub fn new() -> Arc<Progress> {
        Arc::new(Progress {
            busy: (0..MAX_SLOTS).map(|_| AtomicBool::new(false)).collect(),
            case: (0..MAX_SLOTS).map(|_| AtomicU64::new(0)).collect(),
            tick: (0..MAX_SLOTS).map(|_| AtomicU64::new(0)).collect(),
        })
    }
    #[inline]
    pub fn begin(&self, slot: usize, case: u64) {
        self.case[slot].store(case, Ordering::Relaxed);
        self.tick[slot].fetch_add(1, Ordering::Relaxed);
        self.busy[slot].store(true, Ordering::Release);
    }
    #[inline]
    pub fn end(&self, slot: usize) {
        self.busy[slot].store(false, Ordering::Release);
    }
}

/// Run `f(slot, index)` for every index in 0..n on `threads` workers (dynamic chunked scheduling)
pub fn par_for<F: Fn(usize, u64) + Sync>(threads: usize, n: u64, chunk: u64, f: F) {
    let next = AtomicU64::new(0);
    let chunk = chunk.max(1);
    std::thread::scope(|s| {
        for slot in 0..threads {
            let next = &next;
            let f = &f;
            std::thread::Builder::new()
                .stack_size(64 << 20)
                .spawn_scoped(s, move || loop {
                    let st = next.fetch_add(chunk, Ordering::Relaxed);
                    if st >= n {
                        break;
                    }
                    let en = (st + chunk).min(n);
                    for i in st..en {
                        f(slot, i);
                    }
                })
                .expect("spawn");
        }
    });
}

/// Run `f(slot, &item)` over a slice in parallel
pub fn par_each<T: Sync, F: Fn(usize, usize, &T) + Sync>(threads: usize, items: &[T], f: F) {
    let next = AtomicUsize::new(0);
    std::thread::scope(|s| {
        for slot in 0..threads {
            let next = &next;
            let f = &f;
            std::thread::Builder::new()
                .stack_size(64 << 20)
                .spawn_scoped(s, move || loop {
                    let i = next.fetch_add(1, Ordering::Relaxed);
                    if i >= items.len() {
                        break;
                    }
                    f(slot, i, &items[i]);
                })
                .expect("spawn");
        }
    });
}

/// Watchdog: if any busy slot stays on the same tick for `limit`, call `on_hang(slot, case)` which
/// is expected to report and terminate the process (a stuck thread cannot be killed, a process can).
pub fn spawn_watchdog<F: Fn(usize, u64) + Send + 'static>(p: Arc<Progress>, limit: Duration, on_hang: F) -> Arc<AtomicBool> {
    let stop = Arc::new(AtomicBool::new(false));
    let stop2 = stop.clone();
    std::thread::spawn(move || {
        let mut last: Vec<(u64, Instant)> = (0..MAX_SLOTS).map(|_| (u64::MAX, Instant::now())).collect();
        while !stop2.load(Ordering::Relaxed) {
            std::thread::sleep(Duration::from_millis(250));
            for slot in 0..MAX_SLOTS {
                if !p.busy[slot].load(Ordering::Acquire) {
                    last[slot] = (u64::MAX, Instant::now());
                    continue;
                }
                let t = p.tick[slot].load(Ordering::Relaxed);
                if last[slot].0 != t {
                    last[slot] = (t, Instant::now());
                } else if last[slot].1.elapsed() > limit {
                    on_hang(slot, p.case[slot].load(Ordering::Relaxed));
                    last[slot] = (u64::MAX, Instant::now());
                }
            }
        }
    });
    stop
}

/// Resident set size in MiB (Linux)
pub fn rss_mib() -> u64 {
    if let Ok(s) = std::fs::read_to_string("/proc/self/statm") {
        if let Some(x) = s.split_whitespace().nth(1) {
            if let Ok(pages) = x.parse::<u64>() {
                return pages * 4096 / (1 << 20);
            }
        }
    }
    0
}

/// Install a silent panic hook: the harness observes panics through catch_unwind and reports them
/// itself; the default hook would flood stderr during known-finding sweeps.
pub fn quiet_panics() {
    if std::env::var("VERIF_LOUD_PANICS").is_ok() {
        return; // debugging aid: keep the default hook
    }
    std::panic::set_hook(Box::new(|_| {}));
}

pub fn panic_message(e: &Box<dyn std::any::Any + Send>) -> String {
    if let Some(x) = e.downcast_ref::<&str>() {
        x.to_string()
    } else if let Some(x) = e.downcast_ref::<String>() {
        x.clone()
    } else {
        "<non-string panic payload>".to_string()
    }
}

/// Small deterministic PRNG for the labelled sampling supplements (never decides a verdict alone)
pub struct Rng(pub u64);
impl Rng {
    pub fn next(&mut self) -> u64 {
        self.0 = self.0.wrapping_add(0x9E3779B97F4A7C15);
        let mut z = self.0;
        z = (z ^ (z >> 30)).wrapping_mul(0xBF58476D1CE4E5B9);
        z = (z ^ (z >> 27)).wrapping_mul(0x94D049BB133111EB);
        z ^ (z >> 31)
    }
    pub fn below(&mut self, n: u64) -> u64 {
        if n == 0 {
            0
        } else {
            self.next() % n
        }
    }
}

//! Parallel helpers, progress tracking and the hang watchdog.
use std::sync::atomic::{AtomicBool, AtomicU64, AtomicUsize, Ordering};
use std::sync::Arc;
use std::time::{Duration, Instant};

pub fn default_threads() -> usize {
    std::env::var("VERIF_THREADS")
        .ok()
        .and_then(|x| x.parse().ok())
        .unwrap_or_else(|| std::thread::available_parallelism().map(|x| x.get()).unwrap_or(4))
        .max(1)
}

pub const MAX_SLOTS: usize = 256;

/// Per worker progress slots read by the watchdog
pub struct Progress {
    pub busy: Vec<AtomicBool>,
    pub case: Vec<AtomicU64>,
    pub tick: Vec<AtomicU64>,
    /// kernel thread id of the thread working in the slot (for the stuck-or-starved decision)
    pub tid: Vec<std::sync::atomic::AtomicI32>,
}

impl Progress {
    pub fn new() -> Arc<Progress> {
        Arc::new(Progress {
            busy: (0..MAX_SLOTS).map(|_| AtomicBool::new(false)).collect(),
            case: (0..MAX_SLOTS).map(|_| AtomicU64::new(0)).collect(),
            tick: (0..MAX_SLOTS).map(|_| AtomicU64::new(0)).collect(),
            tid: (0..MAX_SLOTS).map(|_| std::sync::atomic::AtomicI32::new(0)).collect(),
        })
    }
    #[inline]
    pub fn begin(&self, slot: usize, case: u64) {
        self.tid[slot].store(my_tid(), Ordering::Relaxed);
        self.case[slot].store(case, Ordering::Relaxed);
        self.tick[slot].fetch_add(1, Ordering::Relaxed);
        self.busy[slot].store(true, Ordering::Release);
    }
    #[inline]
    pub fn end(&self, slot: usize) {
        self.busy[slot].store(false, Ordering::Release);
    }
}

/// Run `f(slot, index)` for every index in 0..n on `threads` workers (dynamic chunked scheduling)
#[track_caller]
pub fn par_for<F: Fn(usize, u64) + Sync>(threads: usize, n: u64, chunk: u64, f: F) {
    let next = AtomicU64::new(0);
    let chunk = chunk.max(1);
    let loc = std::panic::Location::caller();
    std::thread::scope(|s| {
        for slot in 0..threads {
            let next = &next;
            let f = &f;
            std::thread::Builder::new()
                .stack_size(64 << 20)
                .spawn_scoped(s, move || {
                    let iw = ItemGuard::new(loc);
                    loop {
                        let st = next.fetch_add(chunk, Ordering::Relaxed);
                        if st >= n {
                            break;
                        }
                        let en = (st + chunk).min(n);
                        for i in st..en {
                            iw.begin(i);
                            f(slot, i);
                        }
                    }
                })
                .expect("spawn");
        }
    });
}

/// Run `f(slot, &item)` over a slice in parallel
#[track_caller]
pub fn par_each<T: Sync, F: Fn(usize, usize, &T) + Sync>(threads: usize, items: &[T], f: F) {
    let next = AtomicUsize::new(0);
    let loc = std::panic::Location::caller();
    std::thread::scope(|s| {
        for slot in 0..threads {
            let next = &next;
            let f = &f;
            std::thread::Builder::new()
                .stack_size(64 << 20)
                .spawn_scoped(s, move || {
                    let iw = ItemGuard::new(loc);
                    loop {
                        let i = next.fetch_add(1, Ordering::Relaxed);
                        if i >= items.len() {
                            break;
                        }
                        iw.begin(i as u64);
                        f(slot, i, &items[i]);
                    }
                })
                .expect("spawn");
        }
    });
}

/// Watchdog: if any busy slot stays on the same tick for `limit`, call `on_hang(slot, case)` which
/// is expected to report and terminate the process (a stuck thread cannot be killed, a process can).
pub fn spawn_watchdog<F: Fn(usize, u64) + Send + 'static>(p: Arc<Progress>, limit: Duration, on_hang: F) -> Arc<AtomicBool> {
    let stop = Arc::new(AtomicBool::new(false));
    let stop2 = stop.clone();
    std::thread::spawn(move || {
        let mut last: Vec<(u64, Instant)> = (0..MAX_SLOTS).map(|_| (u64::MAX, Instant::now())).collect();
        while !stop2.load(Ordering::Relaxed) {
            std::thread::sleep(Duration::from_millis(250));
            for slot in 0..MAX_SLOTS {
                if !p.busy[slot].load(Ordering::Acquire) {
                    last[slot] = (u64::MAX, Instant::now());
                    continue;
                }
                let t = p.tick[slot].load(Ordering::Relaxed);
                if last[slot].0 != t {
                    last[slot] = (t, Instant::now());
                } else if last[slot].1.elapsed() > limit {
                    let tid = p.tid[slot].load(Ordering::Relaxed);
                    if confirm_stuck(tid, limit, &|| p.busy[slot].load(Ordering::Acquire) && p.tick[slot].load(Ordering::Relaxed) == t) {
                        on_hang(slot, p.case[slot].load(Ordering::Relaxed));
                    }
                    last[slot] = (u64::MAX, Instant::now());
                }
            }
        }
    });
    stop
}

thread_local! {
    static MY_TID: std::cell::Cell<i32> = const { std::cell::Cell::new(0) };
}

/// kernel thread id of the calling thread (cached)
#[inline]
pub fn my_tid() -> i32 {
    MY_TID.with(|c| {
        if c.get() == 0 {
            c.set(unsafe { libc::syscall(libc::SYS_gettid) } as i32);
        }
        c.get()
    })
}

/// (state, user+system CPU time in seconds) of a thread of this process or of another process' main thread
pub fn task_stat(pid: Option<i32>, tid: i32) -> Option<(char, f64)> {
    let path = match pid {
        Some(p) => format!("/proc/{}/stat", p),
        None => format!("/proc/self/task/{}/stat", tid),
    };
    let txt = std::fs::read_to_string(path).ok()?;
    // the command name may contain spaces: fields start after the last ')'
    let rest = &txt[txt.rfind(')')? + 1..];
    let f: Vec<&str> = rest.split_whitespace().collect();
    let state = f.first()?.chars().next()?;
    let (ut, st): (f64, f64) = (f.get(11)?.parse().ok()?, f.get(12)?.parse().ok()?);
    let hz = unsafe { libc::sysconf(libc::_SC_CLK_TCK) }.max(1) as f64;
    Some((state, (ut + st) / hz))
}

/// A slot has shown no progress for `limit` of wall-clock time. On a loaded machine that can also mean
/// that the thread simply did not get the CPU, so before a hang is reported the thread itself is watched:
/// it is stuck once it has burnt a further `limit` of CPU time inside the same call (endless loop), or has
/// been asleep (blocked on a lock that is never released) for a further `limit` without running at all.
/// Returns false as soon as `still()` says the slot moved on.
pub fn confirm_stuck(tid: i32, limit: Duration, still: &dyn Fn() -> bool) -> bool {
    let (_, cpu0) = match task_stat(None, tid) {
        Some(x) => x,
        None => return still(), // no /proc: the wall-clock verdict stands
    };
    let t0 = Instant::now();
    let mut asleep_since: Option<(Instant, f64)> = None;
    loop {
        std::thread::sleep(Duration::from_millis(250));
        if !still() {
            return false;
        }
        match task_stat(None, tid) {
            None => return still(),
            Some((state, cpu)) => {
                if cpu - cpu0 >= limit.as_secs_f64() {
                    return true;
                }
                if state == 'S' || state == 'D' {
                    match asleep_since {
                        Some((since, c)) if cpu - c < 0.05 => {
                            if since.elapsed() >= limit {
                                return true;
                            }
                        },
                        _ => asleep_since = Some((Instant::now(), cpu)),
                    }
                } else {
                    asleep_since = None;
                }
            },
        }
        if t0.elapsed() > limit * 60 {
            return true;
        }
    }
}

/// Resident set size in MiB (Linux)
pub fn rss_mib() -> u64 {
    if let Ok(s) = std::fs::read_to_string("/proc/self/statm") {
        if let Some(x) = s.split_whitespace().nth(1) {
            if let Ok(pages) = x.parse::<u64>() {
                return pages * 4096 / (1 << 20);
            }
        }
    }
    0
}

/// Install a silent panic hook: the harness observes panics through catch_unwind and reports them
/// itself; the default hook would flood stderr during known-finding sweeps.
pub fn quiet_panics() {
    if std::env::var("VERIF_LOUD_PANICS").is_ok() {
        return; // debugging aid: keep the default hook
    }
    std::panic::set_hook(Box::new(|_| {}));
}

pub fn panic_message(e: &Box<dyn std::any::Any + Send>) -> String {
    if let Some(x) = e.downcast_ref::<&str>() {
        x.to_string()
    } else if let Some(x) = e.downcast_ref::<String>() {
        x.clone()
    } else {
        "<non-string panic payload>".to_string()
    }
}

/// Small deterministic PRNG for the labelled sampling supplements (never decides a verdict alone)
pub struct Rng(pub u64);
impl Rng {
    pub fn next(&mut self) -> u64 {
        self.0 = self.0.wrapping_add(0x9E3779B97F4A7C15);
        let mut z = self.0;
        z = (z ^ (z >> 30)).wrapping_mul(0xBF58476D1CE4E5B9);
        z = (z ^ (z >> 27)).wrapping_mul(0x94D049BB133111EB);
        z ^ (z >> 31)
    }
    pub fn below(&mut self, n: u64) -> u64 {
        if n == 0 {
            0
        } else {
            self.next() % n
        }
    }
}

// ---------------------------------------------------------------------------------------------
// Call watch: a hang guard for checks whose workers do not carry a case id. Every call into rivia
// is wrapped in `watched`, which records a short description of the call in the calling thread's
// slot; the watchdog reports the description of a call that has not returned within the limit.
// ---------------------------------------------------------------------------------------------
struct CwSlot {
    busy: AtomicBool,
    tick: AtomicU64,
    tid: std::sync::atomic::AtomicI32,
    desc: std::sync::Mutex<String>,
}

static CW: std::sync::OnceLock<Vec<CwSlot>> = std::sync::OnceLock::new();
static CW_NEXT: AtomicUsize = AtomicUsize::new(0);
thread_local! {
    static CW_SLOT: std::cell::Cell<usize> = const { std::cell::Cell::new(usize::MAX) };
}

fn cw_slots() -> &'static Vec<CwSlot> {
    CW.get_or_init(|| (0..MAX_SLOTS).map(|_| CwSlot { busy: AtomicBool::new(false), tick: AtomicU64::new(0), tid: std::sync::atomic::AtomicI32::new(0), desc: std::sync::Mutex::new(String::new()) }).collect())
}

struct CwBusy(&'static CwSlot);
impl Drop for CwBusy {
    fn drop(&mut self) {
        self.0.busy.store(false, Ordering::Release);
    }
}

/// run `f` (a call into rivia) under the call watch; `desc` writes what is being called
pub fn watched<T>(desc: impl FnOnce(&mut String), f: impl FnOnce() -> T) -> T {
    let slots = cw_slots();
    let i = CW_SLOT.with(|c| {
        if c.get() == usize::MAX {
            c.set(CW_NEXT.fetch_add(1, Ordering::Relaxed) % MAX_SLOTS);
        }
        c.get()
    });
    let s = &slots[i];
    {
        let mut d = s.desc.lock().unwrap_or_else(|e| e.into_inner());
        d.clear();
        desc(&mut d);
    }
    s.tid.store(my_tid(), Ordering::Relaxed);
    s.tick.fetch_add(1, Ordering::Relaxed);
    s.busy.store(true, Ordering::Release);
    let _g = CwBusy(s);
    f()
}

/// `on_hang(description)` is expected to report and end the process
pub fn start_call_watchdog<F: Fn(String) + Send + 'static>(limit: Duration, on_hang: F) -> Arc<AtomicBool> {
    let stop = Arc::new(AtomicBool::new(false));
    let stop2 = stop.clone();
    std::thread::spawn(move || {
        let slots = cw_slots();
        let mut last: Vec<(u64, Instant)> = (0..MAX_SLOTS).map(|_| (u64::MAX, Instant::now())).collect();
        while !stop2.load(Ordering::Relaxed) {
            std::thread::sleep(Duration::from_millis(250));
            for (i, s) in slots.iter().enumerate() {
                if !s.busy.load(Ordering::Acquire) {
                    last[i] = (u64::MAX, Instant::now());
                    continue;
                }
                let t = s.tick.load(Ordering::Relaxed);
                if last[i].0 != t {
                    last[i] = (t, Instant::now());
                } else if last[i].1.elapsed() > limit {
                    if confirm_stuck(s.tid.load(Ordering::Relaxed), limit, &|| s.busy.load(Ordering::Acquire) && s.tick.load(Ordering::Relaxed) == t) {
                        let d = s.desc.lock().unwrap_or_else(|e| e.into_inner()).clone();
                        on_hang(d);
                    }
                    last[i] = (u64::MAX, Instant::now());
                }
            }
        }
    });
    stop
}


// ---------------------------------------------------------------------------------------------
// Item watch: the coarse safety net under every par_for / par_each loop. A work item that does not
// finish within the limit (items take milliseconds to seconds) is reported as a hang by the handler
// installed with `set_stall_handler`; checks with their own per-call watchdogs fire much earlier.
// ---------------------------------------------------------------------------------------------
struct ItemSlot {
    busy: AtomicBool,
    tick: AtomicU64,
    tid: std::sync::atomic::AtomicI32,
    idx: AtomicU64,
    loc: std::sync::Mutex<Option<&'static std::panic::Location<'static>>>,
}

static ITEM_SLOTS: std::sync::OnceLock<Vec<ItemSlot>> = std::sync::OnceLock::new();
static ITEM_FREE: std::sync::Mutex<Vec<usize>> = std::sync::Mutex::new(Vec::new());
static ITEM_WD_STARTED: AtomicBool = AtomicBool::new(false);
static STALL_HANDLER: std::sync::OnceLock<Box<dyn Fn(String) + Send + Sync>> = std::sync::OnceLock::new();

/// the handler is expected to report the stall and end the process
pub fn set_stall_handler<F: Fn(String) + Send + Sync + 'static>(f: F) {
    let _ = STALL_HANDLER.set(Box::new(f));
}

pub fn stall_limit() -> Duration {
    Duration::from_secs(std::env::var("VERIF_STALL_LIMIT_S").ok().and_then(|x| x.parse().ok()).unwrap_or(300))
}

fn item_slots() -> &'static Vec<ItemSlot> {
    ITEM_SLOTS.get_or_init(|| {
        let mut free = ITEM_FREE.lock().unwrap();
        *free = (0..1024).rev().collect();
        (0..1024).map(|_| ItemSlot { busy: AtomicBool::new(false), tick: AtomicU64::new(0), tid: std::sync::atomic::AtomicI32::new(0), idx: AtomicU64::new(0), loc: std::sync::Mutex::new(None) }).collect()
    })
}

struct ItemGuard {
    slot: Option<usize>,
}

impl ItemGuard {
    fn new(loc: &'static std::panic::Location<'static>) -> ItemGuard {
        let slots = item_slots();
        let slot = ITEM_FREE.lock().unwrap_or_else(|e| e.into_inner()).pop();
        if let Some(i) = slot {
            *slots[i].loc.lock().unwrap_or_else(|e| e.into_inner()) = Some(loc);
        }
        if !ITEM_WD_STARTED.swap(true, Ordering::SeqCst) {
            std::thread::spawn(|| {
                let slots = item_slots();
                let limit = stall_limit();
                let mut last: Vec<(u64, Instant)> = (0..slots.len()).map(|_| (u64::MAX, Instant::now())).collect();
                loop {
                    std::thread::sleep(Duration::from_secs(1));
                    for (i, s) in slots.iter().enumerate() {
                        if !s.busy.load(Ordering::Acquire) {
                            last[i] = (u64::MAX, Instant::now());
                            continue;
                        }
                        let t = s.tick.load(Ordering::Relaxed);
                        if last[i].0 != t {
                            last[i] = (t, Instant::now());
                        } else if last[i].1.elapsed() > limit {
                            if !confirm_stuck(s.tid.load(Ordering::Relaxed), limit, &|| s.busy.load(Ordering::Acquire) && s.tick.load(Ordering::Relaxed) == t) {
                                last[i] = (u64::MAX, Instant::now());
                                continue;
                            }
                            let loc = s.loc.lock().unwrap_or_else(|e| e.into_inner()).map(|l| format!("{}:{}", l.file(), l.line())).unwrap_or_default();
                            let msg = format!("work item {} of the loop at {} has not finished after {} s", s.idx.load(Ordering::Relaxed), loc, limit.as_secs());
                            match STALL_HANDLER.get() {
                                Some(h) => h(msg),
                                None => {
                                    eprintln!("machinery: {}", msg);
                                    std::process::exit(2);
                                },
                            }
                            last[i] = (u64::MAX, Instant::now());
                        }
                    }
                }
            });
        }
        ItemGuard { slot }
    }
    #[inline]
    fn begin(&self, idx: u64) {
        if let Some(i) = self.slot {
            let s = &item_slots()[i];
            s.tid.store(my_tid(), Ordering::Relaxed);
            s.idx.store(idx, Ordering::Relaxed);
            s.tick.fetch_add(1, Ordering::Relaxed);
            s.busy.store(true, Ordering::Release);
        }
    }
}

impl Drop for ItemGuard {
    fn drop(&mut self) {
        if let Some(i) = self.slot {
            item_slots()[i].busy.store(false, Ordering::Release);
            ITEM_FREE.lock().unwrap_or_else(|e| e.into_inner()).push(i);
        }
    }
}

/// heartbeat of single-threaded worker processes (bumped by WorkerCtx::mine / count / vio)
pub static WORKER_BEAT: AtomicU64 = AtomicU64::new(0);
pub static WORKER_UNIT: AtomicU64 = AtomicU64::new(0);

//! Exhaustive string enumeration over an alphabet up to a length bound.

/// Number of strings of length 0..=max_len over an alphabet of size k
pub fn count_upto(k: u64, max_len: u32) -> u64 {
    let mut total = 0u64;
    let mut p = 1u64;
    for _ in 0..=max_len {
        total += p;
        p = p.saturating_mul(k);
    }
    total
}

/// Decode index -> string (shortest first, then lexicographic in alphabet order)
pub fn nth_string(alpha: &[&str], mut idx: u64, out: &mut String) {
    out.clear();
    let k = alpha.len() as u64;
    let mut len = 0u32;
    let mut block = 1u64;
    while idx >= block {
        idx -= block;
        block *= k;
        len += 1;
    }
    // idx is now the index within strings of length `len`
    let mut digits = [0usize; 32];
    for i in (0..len as usize).rev() {
        digits[i] = (idx % k) as usize;
        idx /= k;
    }
    for i in 0..len as usize {
        out.push_str(alpha[digits[i]]);
    }
}

pub fn all_strings(alpha: &[&str], max_len: u32) -> Vec<String> {
    let n = count_upto(alpha.len() as u64, max_len);
    let mut v = Vec::with_capacity(n as usize);
    let mut s = String::new();
    for i in 0..n {
        nth_string(alpha, i, &mut s);
        v.push(s.clone());
    }
    v
}

//! Minimal JSON value, emitter and parser (no third-party crates available offline).
use std::collections::BTreeMap;
use std::fmt::Write;

#[derive(Debug, Clone, PartialEq)]
pub enum J {
    Null,
    Bool(bool),
    Int(i64),
    Num(f64),
    Str(String),
    Arr(Vec<J>),
    Obj(Vec<(String, J)>),
}

impl J {
    pub fn s<T: AsRef<str>>(x: T) -> J {
        J::Str(x.as_ref().to_string())
    }
    pub fn i<T: TryInto<i64>>(x: T) -> J {
        J::Int(x.try_into().unwrap_or(i64::MAX))
    }
    pub fn arr<I: IntoIterator<Item = J>>(it: I) -> J {
        J::Arr(it.into_iter().collect())
    }
    pub fn strs<I: IntoIterator<Item = S>, S: AsRef<str>>(it: I) -> J {
        J::Arr(it.into_iter().map(|x| J::s(x)).collect())
    }
    pub fn obj<I: IntoIterator<Item = (&'static str, J)>>(it: I) -> J {
        J::Obj(it.into_iter().map(|(k, v)| (k.to_string(), v)).collect())
    }
    pub fn get(&self, key: &str) -> Option<&J> {
        match self {
            J::Obj(v) => v.iter().find(|(k, _)| k == key).map(|(_, v)| v),
            _ => None,
        }
    }
    pub fn as_str(&self) -> Option<&str> {
        match self {
            J::Str(s) => Some(s),
            _ => None,
        }
    }
    pub fn as_i64(&self) -> Option<i64> {
        match self {
            J::Int(i) => Some(*i),
            J::Num(f) => Some(*f as i64),
            _ => None,
        }
    }
    pub fn as_arr(&self) -> Option<&Vec<J>> {
        match self {
            J::Arr(a) => Some(a),
            _ => None,
        }
    }
    pub fn set(&mut self, key: &str, val: J) {
        if let J::Obj(v) = self {
            if let Some(slot) = v.iter_mut().find(|(k, _)| k == key) {
                slot.1 = val;
            } else {
                v.push((key.to_string(), val));
            }
        }
    }

    pub fn to_string(&self) -> String {
        let mut out = String::new();
        self.write(&mut out, None, 0);
        out
    }
    pub fn to_pretty(&self) -> String {
        let mut out = String::new();
        self.write(&mut out, Some(1), 0);
        out.push('\n');
        out
    }

    fn write(&self, out: &mut String, indent: Option<usize>, level: usize) {
        match self {
            J::Null => out.push_str("null"),
            J::Bool(b) => out.push_str(if *b { "true" } else { "false" }),
            J::Int(i) => {
                let _ = write!(out, "{}", i);
            },
            J::Num(f) => {
                if f.is_finite() {
                    let _ = write!(out, "{:.3}", f);
                } else {
                    out.push_str("0");
                }
            },
            J::Str(s) => write_str(out, s),
            J::Arr(a) => {
                out.push('[');
                for (i, x) in a.iter().enumerate() {
                    if i > 0 {
                        out.push(',');
                    }
                    nl(out, indent, level + 1);
                    x.write(out, indent, level + 1);
                }
                if !a.is_empty() {
                    nl(out, indent, level);
                }
                out.push(']');
            },
            J::Obj(o) => {
                out.push('{');
                for (i, (k, v)) in o.iter().enumerate() {
                    if i > 0 {
                        out.push(',');
                    }
                    nl(out, indent, level + 1);
                    write_str(out, k);
                    out.push(':');
                    if indent.is_some() {
                        out.push(' ');
                    }
                    v.write(out, indent, level + 1);
                }
                if !o.is_empty() {
                    nl(out, indent, level);
                }
                out.push('}');
            },
        }
    }
}

fn nl(out: &mut String, indent: Option<usize>, level: usize) {
    if let Some(n) = indent {
        out.push('\n');
        for _ in 0..(n * level) {
            out.push(' ');
        }
    }
}

fn write_str(out: &mut String, s: &str) {
    out.push('"');
    for c in s.chars() {
        match c {
            '"' => out.push_str("\\\""),
            '\\' => out.push_str("\\\\"),
            '\n' => out.push_str("\\n"),
            '\r' => out.push_str("\\r"),
            '\t' => out.push_str("\\t"),
            c if (c as u32) < 0x20 => {
                let _ = write!(out, "\\u{:04x}", c as u32);
            },
            c => out.push(c),
        }
    }
    out.push('"');
}

/// Render arbitrary bytes as a printable string (lossless for ASCII printable; \xNN otherwise)
pub fn bytes_repr(b: &[u8]) -> String {
    let mut s = String::new();
    if b.len() > 64 {
        let _ = write!(s, "<{} bytes:", b.len());
        for x in &b[..8] {
            let _ = write!(s, "{:02x}", x);
        }
        s.push_str("..>");
        return s;
    }
    match std::str::from_utf8(b) {
        Ok(t) if t.chars().all(|c| !c.is_control() || c == '\n' || c == '\r') => s.push_str(t),
        _ => {
            for x in b {
                if (0x20..0x7f).contains(x) && *x != b'\\' {
                    s.push(*x as char);
                } else {
                    let _ = write!(s, "\\x{:02x}", x);
                }
            }
        },
    }
    s
}

// ---------------------------------------------------------------------------------------------
// Parser
// ---------------------------------------------------------------------------------------------
pub fn parse(src: &str) -> Result<J, String> {
    let mut p = P { b: src.as_bytes(), i: 0 };
    p.ws();
    let v = p.val()?;
    p.ws();
    if p.i != p.b.len() {
        return Err(format!("trailing data at {}", p.i));
    }
    Ok(v)
}

struct P<'a> {
    b: &'a [u8],
    i: usize,
}

impl<'a> P<'a> {
    fn ws(&mut self) {
        while self.i < self.b.len() && (self.b[self.i] as char).is_ascii_whitespace() {
            self.i += 1;
        }
    }
    fn val(&mut self) -> Result<J, String> {
        self.ws();
        if self.i >= self.b.len() {
            return Err("eof".into());
        }
        match self.b[self.i] {
            b'{' => {
                self.i += 1;
                let mut o = vec![];
                self.ws();
                if self.peek() == Some(b'}') {
                    self.i += 1;
                    return Ok(J::Obj(o));
                }
                loop {
                    self.ws();
                    let k = match self.val()? {
                        J::Str(s) => s,
                        _ => return Err("key".into()),
                    };
                    self.ws();
                    if self.peek() != Some(b':') {
                        return Err("colon".into());
                    }
                    self.i += 1;
                    let v = self.val()?;
                    o.push((k, v));
                    self.ws();
                    match self.peek() {
                        Some(b',') => self.i += 1,
                        Some(b'}') => {
                            self.i += 1;
                            return Ok(J::Obj(o));
                        },
                        _ => return Err("obj".into()),
                    }
                }
            },
            b'[' => {
                self.i += 1;
                let mut a = vec![];
                self.ws();
                if self.peek() == Some(b']') {
                    self.i += 1;
                    return Ok(J::Arr(a));
                }
                loop {
                    a.push(self.val()?);
                    self.ws();
                    match self.peek() {
                        Some(b',') => self.i += 1,
                        Some(b']') => {
                            self.i += 1;
                            return Ok(J::Arr(a));
                        },
                        _ => return Err("arr".into()),
                    }
                }
            },
            b'"' => {
                self.i += 1;
                let mut s: Vec<u8> = vec![];
                loop {
                    if self.i >= self.b.len() {
                        return Err("str eof".into());
                    }
                    let c = self.b[self.i];
                    self.i += 1;
                    match c {
                        b'"' => break,
                        b'\\' => {
                            let e = self.b[self.i];
                            self.i += 1;
                            match e {
                                b'n' => s.push(b'\n'),
                                b'r' => s.push(b'\r'),
                                b't' => s.push(b'\t'),
                                b'b' => s.push(8),
                                b'f' => s.push(12),
                                b'u' => {
                                    let h = std::str::from_utf8(&self.b[self.i..self.i + 4]).map_err(|e| e.to_string())?;
                                    let cp = u32::from_str_radix(h, 16).map_err(|e| e.to_string())?;
                                    self.i += 4;
                                    let ch = char::from_u32(cp).unwrap_or('?');
                                    let mut buf = [0u8; 4];
                                    s.extend_from_slice(ch.encode_utf8(&mut buf).as_bytes());
                                },
                                x => s.push(x),
                            }
                        },
                        x => s.push(x),
                    }
                }
                Ok(J::Str(String::from_utf8_lossy(&s).into_owned()))
            },
            b't' => {
                self.i += 4;
                Ok(J::Bool(true))
            },
            b'f' => {
                self.i += 5;
                Ok(J::Bool(false))
            },
            b'n' => {
                self.i += 4;
                Ok(J::Null)
            },
            _ => {
                let st = self.i;
                while self.i < self.b.len() && matches!(self.b[self.i], b'-' | b'+' | b'.' | b'e' | b'E' | b'0'..=b'9') {
                    self.i += 1;
                }
                let t = std::str::from_utf8(&self.b[st..self.i]).map_err(|e| e.to_string())?;
                if let Ok(i) = t.parse::<i64>() {
                    Ok(J::Int(i))
                } else {
                    t.parse::<f64>().map(J::Num).map_err(|e| format!("num {:?}: {}", t, e))
                }
            },
        }
    }
    fn peek(&self) -> Option<u8> {
        self.b.get(self.i).copied()
    }
}

pub fn obj_from_map(m: &BTreeMap<String, J>) -> J {
    J::Obj(m.iter().map(|(k, v)| (k.clone(), v.clone())).collect())
}

//! Violation collection, known-finding triage, replay files and evidence emission.
use super::json::{self, J};
use std::collections::BTreeMap;
use std::path::PathBuf;
use std::sync::atomic::{AtomicU64, Ordering};
use std::sync::Mutex;
use std::time::Instant;

#[derive(Debug, Clone, Copy, PartialEq, Eq)]
pub enum Tier {
    Quick,
    Thorough,
}

impl Tier {
    pub fn name(&self) -> &'static str {
        match self {
            Tier::Quick => "quick",
            Tier::Thorough => "thorough",
        }
    }
    pub fn pick<T>(&self, quick: T, thorough: T) -> T {
        match self {
            Tier::Quick => quick,
            Tier::Thorough => thorough,
        }
    }
}

pub struct Ctx {
    pub prop: String,
    pub tier: Tier,
    pub seed: u64,
    pub replay: Option<PathBuf>,
    pub start: Instant,
    pub threads: usize,
}

pub fn verif_root() -> PathBuf {
    PathBuf::from(std::env::var("VERIF_ROOT").unwrap_or_else(|_| "/verif".to_string()))
}

pub struct Rec {
    pub count: u64,
    pub detail: String,
    pub case: J,
}

static COLLECTOR: Mutex<BTreeMap<String, Rec>> = Mutex::new(BTreeMap::new());
static TOTAL_VIOS: AtomicU64 = AtomicU64::new(0);

/// Record a violation under a normalised signature. Only the first witness per signature is kept
/// (callers enumerate simplest-first so that is also the smallest), later ones are counted.
pub fn vio<D: FnOnce() -> String, C: FnOnce() -> J>(sig: &str, detail: D, case: C) {
    TOTAL_VIOS.fetch_add(1, Ordering::Relaxed);
    let mut g = COLLECTOR.lock().unwrap_or_else(|e| e.into_inner());
    if let Some(r) = g.get_mut(sig) {
        r.count += 1;
        return;
    }
    g.insert(sig.to_string(), Rec { count: 1, detail: detail(), case: case() });
}

pub fn vio_count() -> u64 {
    TOTAL_VIOS.load(Ordering::Relaxed)
}

pub fn vio_signatures() -> Vec<String> {
    COLLECTOR.lock().unwrap_or_else(|e| e.into_inner()).keys().cloned().collect()
}

#[derive(Debug, Clone)]
pub struct Known {
    pub status: String,
    pub property: String,
    pub signature: String,
    pub what: String,
}

pub fn load_known() -> Vec<Known> {
    let p = verif_root().join("known_findings.jsonl");
    let mut out = vec![];
    if let Ok(s) = std::fs::read_to_string(&p) {
        for (n, line) in s.lines().enumerate() {
            let line = line.trim();
            if line.is_empty() || line.starts_with('#') || line.starts_with("fixed:") {
                continue;
            }
            match json::parse(line) {
                Ok(j) => out.push(Known {
                    status: j.get("status").and_then(|x| x.as_str()).unwrap_or("").to_string(),
                    property: j.get("property").and_then(|x| x.as_str()).unwrap_or("").to_string(),
                    signature: j.get("signature").and_then(|x| x.as_str()).unwrap_or("").to_string(),
                    what: j.get("what").and_then(|x| x.as_str()).unwrap_or("").to_string(),
                }),
                Err(e) => {
                    eprintln!("machinery: known_findings.jsonl line {} unparsable: {}", n + 1, e);
                    std::process::exit(2);
                },
            }
        }
    }
    out
}

fn sig_matches(pattern: &str, sig: &str) -> bool {
    if let Some(p) = pattern.strip_suffix('*') {
        sig.starts_with(p)
    } else {
        pattern == sig
    }
}

fn fnv(s: &str) -> u64 {
    let mut h: u64 = 0xcbf29ce484222325;
    for b in s.bytes() {
        h ^= b as u64;
        h = h.wrapping_mul(0x100000001b3);
    }
    h
}

pub struct Evidence {
    pub level: &'static str,
    pub coverage: J,
    pub assumptions: Vec<String>,
}

/// Triage the collected violations, write replay files and the evidence file; returns the exit code
pub fn finish(ctx: &Ctx, ev: Evidence) -> i32 {
    let known = load_known();
    let recs = std::mem::take(&mut *COLLECTOR.lock().unwrap_or_else(|e| e.into_inner()));
    let mut unknown = 0u64;
    let mut known_hits: Vec<J> = vec![];
    let mut printed_known: BTreeMap<String, u64> = BTreeMap::new();
    let replay_dir = verif_root().join("replays").join(&ctx.prop);
    if ctx.replay.is_none() {
        // replay files describe the current run only
        let _ = std::fs::remove_dir_all(&replay_dir);
    }
    for (sig, rec) in recs.iter() {
        let hit = known.iter().find(|k| k.status == "known" && k.property == ctx.prop && sig_matches(&k.signature, sig));
        if let Some(k) = hit {
            *printed_known.entry(format!("{} [{}]", k.what, k.signature)).or_insert(0) += rec.count;
            known_hits.push(J::obj([("signature", J::s(sig)), ("count", J::i(rec.count)), ("witness", J::s(&rec.detail))]));
        } else {
            unknown += 1;
            let _ = std::fs::create_dir_all(&replay_dir);
            let path = replay_dir.join(format!("{:016x}.json", fnv(sig)));
            let body = J::obj([
                ("property", J::s(&ctx.prop)),
                ("tier", J::s(ctx.tier.name())),
                ("signature", J::s(sig)),
                ("occurrences", J::i(rec.count)),
                ("detail", J::s(&rec.detail)),
                ("case", rec.case.clone()),
                ("replay_cmd", J::s(format!("./check {} --replay {}", ctx.prop, path.display()))),
            ]);
            if let Err(e) = std::fs::write(&path, body.to_pretty()) {
                eprintln!("machinery: cannot write replay file {}: {}", path.display(), e);
            }
            println!("  signature: {}", sig);
            for l in rec.detail.lines().take(12) {
                println!("    {}", l);
            }
            println!("VIOLATION property={} replay={}", ctx.prop, path.display());
        }
    }
    for (what, n) in printed_known.iter() {
        println!("KNOWN-FINDING: property={} {} (x{})", ctx.prop, what, n);
    }

    let wall = ctx.start.elapsed().as_secs_f64();
    let mut cov = ev.coverage;
    cov.set("known_finding_signatures_hit", J::i(known_hits.len() as i64));
    cov.set("unlisted_violation_signatures", J::i(unknown as i64));
    if !known_hits.is_empty() {
        cov.set("known_findings_hit", J::Arr(known_hits.into_iter().take(40).collect()));
    }
    let doc = J::obj([
        ("property_id", J::s(&ctx.prop)),
        ("tier", J::s(ctx.tier.name())),
        ("seed", J::i(ctx.seed)),
        ("level", J::s(ev.level)),
        ("coverage", cov),
        ("assumptions", J::strs(ev.assumptions.iter())),
        ("wall_s", J::Num(wall)),
        ("violations", J::i(unknown as i64)),
    ]);
    let evdir = verif_root().join("evidence");
    let _ = std::fs::create_dir_all(&evdir);
    let evpath = evdir.join(format!("{}.json", ctx.prop));
    if let Err(e) = std::fs::write(&evpath, doc.to_pretty()) {
        eprintln!("machinery: cannot write evidence {}: {}", evpath.display(), e);
        return 2;
    }
    println!(
        "{} tier={} wall={:.1}s unlisted_violations={} known_signatures_hit={} evidence={}",
        ctx.prop,
        ctx.tier.name(),
        wall,
        unknown,
        printed_known.len(),
        evpath.display()
    );
    if unknown > 0 {
        1
    } else {
        0
    }
}

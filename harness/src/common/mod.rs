pub mod crumb;
pub mod json;
pub mod par;
pub mod report;
pub mod strings;

//! Breadcrumbs for abort triage: a check that can die by signal (double panic in a destructor, stack
//! overflow, allocation failure inside rivia) runs in a supervised child process and records, per
//! worker slot, the case it is about to execute. If the child is killed the supervisor re-runs each
//! recorded case alone in a fresh child; a case that kills its process again is a verdict.
use std::path::PathBuf;

pub fn dir() -> Option<PathBuf> {
    std::env::var("RVMC_CRUMB_DIR").ok().map(PathBuf::from)
}

/// record the case slot `slot` is about to run (overwrites the previous one)
pub fn set(slot: usize, text: &str) {
    if let Some(d) = dir() {
        let _ = std::fs::write(d.join(format!("slot{}", slot)), text);
    }
}

pub fn clear(slot: usize) {
    if let Some(d) = dir() {
        let _ = std::fs::remove_file(d.join(format!("slot{}", slot)));
    }
}

pub fn read_all(d: &std::path::Path) -> Vec<String> {
    let mut v = vec![];
    if let Ok(rd) = std::fs::read_dir(d) {
        for e in rd.flatten() {
            if let Ok(s) = std::fs::read_to_string(e.path()) {
                if !s.trim().is_empty() {
                    v.push(s);
                }
            }
        }
    }
    v.sort();
    v.dedup();
    v
}

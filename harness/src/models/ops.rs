//! The call alphabet: every VirtualFileSystem method as a value that can be applied to any backend
//! (Memfs, Stdfs, Vfs wrapper) and whose outcome is rendered to a comparable transcript.
use crate::common::json::{bytes_repr, J};
use crate::common::par::panic_message;
use rivia::prelude::*;
use std::panic::{catch_unwind, AssertUnwindSafe};

#[derive(Clone, Debug, PartialEq, Eq, Hash, PartialOrd, Ord)]
pub enum ChmodSel {
    All(u32),
    Dirs(u32),
    Files(u32),
    Sym(String),
    Readonly,
    Secure,
}

#[derive(Clone, Debug, PartialEq, Eq, Hash, PartialOrd, Ord)]
pub enum CopyMode {
    None,
    All(u32),
    Dirs(u32),
    Files(u32),
    /// chmod_dirs(a) followed by chmod_all(b) on the same builder: the later, wider call decides
    DirsThenAll(u32, u32),
    /// chmod_files(a) followed by chmod_all(b)
    FilesThenAll(u32, u32),
}

#[derive(Clone, Debug, PartialEq, Eq, Hash, PartialOrd, Ord)]
pub enum Op {
    // mutators
    Mkfile(String),
    MkfileM(String, u32),
    MkdirP(String),
    MkdirM(String, u32),
    WriteAll(String, Vec<u8>),
    WriteLines(String, Vec<String>),
    AppendAll(String, Vec<u8>),
    AppendLine(String, String),
    AppendLines(String, Vec<String>),
    /// write()/append() handle: chunks written, flush after chunk i when flags[i], then drop
    WriteHandle(String, Vec<Vec<u8>>, Vec<bool>),
    AppendHandle(String, Vec<Vec<u8>>, Vec<bool>),
    Remove(String),
    RemoveAll(String),
    MoveP(String, String),
    Copy(String, String),
    CopyB(String, String, CopyMode, bool),
    Symlink(String, String),
    SetCwd(String),
    Chmod(String, u32),
    ChmodB(String, ChmodSel, bool, bool), // recursive, follow
    Chown(String, u32, u32),
    ChownB(String, Option<u32>, Option<u32>, bool, bool), // recursive, follow
    // queries
    Abs(String),
    AllDirs(String),
    AllFiles(String),
    AllPaths(String),
    Cwd,
    Dirs(String),
    EntriesSorted(String),
    /// entries(path).follow(true).sort_by_name(): the listing with links followed
    EntriesFollow(String),
    Entry(String),
    Exists(String),
    Files(String),
    Gid(String),
    IsDir(String),
    IsExec(String),
    IsFile(String),
    IsReadonly(String),
    IsSymlink(String),
    IsSymlinkDir(String),
    IsSymlinkFile(String),
    Mode(String),
    Owner(String),
    Paths(String),
    Read(String),
    ReadAll(String),
    ReadLines(String),
    Readlink(String),
    ReadlinkAbs(String),
    Root,
    Uid(String),
}

#[derive(Clone, Debug, PartialEq, Eq)]
pub struct Outcome {
    pub ok: bool,
    /// rendered return value (Ok) - empty for Err
    pub val: String,
    /// error kind (e.g. "Path(DoesNotExist") for Err, "PANIC" for a panic
    pub err: String,
    /// full error text / panic message
    pub msg: String,
}

impl Outcome {
    pub fn okv<T: Into<String>>(v: T) -> Outcome {
        Outcome { ok: true, val: v.into(), err: String::new(), msg: String::new() }
    }
    pub fn panicked(&self) -> bool {
        self.err == "PANIC"
    }
    pub fn brief(&self) -> String {
        if self.ok {
            format!("Ok({})", self.val)
        } else if self.panicked() {
            format!("PANIC({})", self.msg)
        } else {
            format!("Err[{})] {}", self.err, self.msg)
        }
    }
    /// the transcript form used for differential comparison (value or full error text)
    pub fn transcript(&self) -> String {
        if self.ok {
            format!("Ok({})", self.val)
        } else {
            format!("Err({}|{})", self.err, self.msg)
        }
    }
}

pub fn err_kind(e: &RvError) -> String {
    let d = format!("{:?}", e);
    // "Path(DoesNotExist(\"/a\"))" -> "Path(DoesNotExist"
    let mut depth = 0;
    let mut out = String::new();
    for c in d.chars() {
        if c == '(' || c == '{' || c == ' ' {
            depth += 1;
            if depth == 2 {
                break;
            }
        }
        out.push(c);
    }
    out
}

fn ps(p: &std::path::Path) -> String {
    p.to_string_lossy().into_owned()
}

fn pv(v: &[PathBuf]) -> String {
    v.iter().map(|p| ps(p)).collect::<Vec<_>>().join(",")
}

fn res<T, F: FnOnce(T) -> String>(r: RvResult<T>, f: F) -> Outcome {
    match r {
        Ok(v) => Outcome::okv(f(v)),
        Err(e) => Outcome { ok: false, val: String::new(), err: err_kind(&e), msg: e.to_string() },
    }
}

pub fn render_entry(e: &VfsEntry) -> String {
    format!(
        "path={} alt={} rel={} dir={} file={} link={} sdir={} sfile={} mode={:o} exec={} ro={} following={} name={:?}",
        ps(e.path()),
        ps(e.alt()),
        ps(e.rel()),
        e.is_dir(),
        e.is_file(),
        e.is_symlink(),
        e.is_symlink_dir(),
        e.is_symlink_file(),
        e.mode(),
        e.is_exec(),
        e.is_readonly(),
        e.following(),
        e.file_name().map(|x| x.to_string_lossy().into_owned())
    )
}

fn handle_write(mut f: Box<dyn Write>, chunks: &[Vec<u8>], flags: &[bool]) -> RvResult<()> {
    for (i, c) in chunks.iter().enumerate() {
        f.write_all(c)?;
        if flags.get(i).copied().unwrap_or(false) {
            f.flush()?;
        }
    }
    drop(f);
    Ok(())
}

/// Apply the call to a backend; panics are caught and rendered as outcome "PANIC"
pub fn apply<V: VirtualFileSystem>(fs: &V, op: &Op) -> Outcome {
    match catch_unwind(AssertUnwindSafe(|| apply_raw(fs, op))) {
        Ok(o) => o,
        Err(e) => Outcome { ok: false, val: String::new(), err: "PANIC".into(), msg: panic_message(&e) },
    }
}

fn apply_raw<V: VirtualFileSystem>(fs: &V, op: &Op) -> Outcome {
    use Op::*;
    let unit = |_: ()| "()".to_string();
    match op {
        Mkfile(p) => res(fs.mkfile(p), |x| ps(&x)),
        MkfileM(p, m) => res(fs.mkfile_m(p, *m), |x| ps(&x)),
        MkdirP(p) => res(fs.mkdir_p(p), |x| ps(&x)),
        MkdirM(p, m) => res(fs.mkdir_m(p, *m), |x| ps(&x)),
        WriteAll(p, d) => res(fs.write_all(p, d), unit),
        WriteLines(p, l) => res(fs.write_lines(p, l), unit),
        AppendAll(p, d) => res(fs.append_all(p, d), unit),
        AppendLine(p, l) => res(fs.append_line(p, l), unit),
        AppendLines(p, l) => res(fs.append_lines(p, l), unit),
        WriteHandle(p, c, f) => res(fs.write(p).and_then(|h| handle_write(h, c, f)), unit),
        AppendHandle(p, c, f) => res(fs.append(p).and_then(|h| handle_write(h, c, f)), unit),
        Remove(p) => res(fs.remove(p), unit),
        RemoveAll(p) => res(fs.remove_all(p), unit),
        MoveP(s, d) => res(fs.move_p(s, d), unit),
        Copy(s, d) => res(fs.copy(s, d), unit),
        CopyB(s, d, m, follow) => res(
            fs.copy_b(s, d).and_then(|c| {
                let c = match m {
                    CopyMode::None => c,
                    CopyMode::All(x) => c.chmod_all(*x),
                    CopyMode::Dirs(x) => c.chmod_dirs(*x),
                    CopyMode::Files(x) => c.chmod_files(*x),
                    CopyMode::DirsThenAll(a, b) => c.chmod_dirs(*a).chmod_all(*b),
                    CopyMode::FilesThenAll(a, b) => c.chmod_files(*a).chmod_all(*b),
                };
                c.follow(*follow).exec()
            }),
            unit,
        ),
        Symlink(l, t) => res(fs.symlink(l, t), |x| ps(&x)),
        SetCwd(p) => res(fs.set_cwd(p), |x| ps(&x)),
        Chmod(p, m) => res(fs.chmod(p, *m), unit),
        ChmodB(p, sel, rec, follow) => res(
            fs.chmod_b(p).and_then(|c| {
                let c = match sel {
                    ChmodSel::All(m) => c.all(*m),
                    ChmodSel::Dirs(m) => c.dirs(*m),
                    ChmodSel::Files(m) => c.files(*m),
                    ChmodSel::Sym(s) => c.sym(s),
                    ChmodSel::Readonly => c.readonly(),
                    ChmodSel::Secure => c.secure(),
                };
                let c = if *rec { c.recurse() } else { c.no_recurse() };
                let c = if *follow { c.follow() } else { c };
                c.exec()
            }),
            unit,
        ),
        Chown(p, u, g) => res(fs.chown(p, *u, *g), unit),
        ChownB(p, u, g, rec, follow) => res(
            fs.chown_b(p).and_then(|c| {
                let c = match u {
                    Some(u) => c.uid(*u),
                    None => c,
                };
                let c = match g {
                    Some(g) => c.gid(*g),
                    None => c,
                };
                let c = c.recurse(*rec);
                let c = if *follow { c.follow() } else { c };
                c.exec()
            }),
            unit,
        ),
        Abs(p) => res(fs.abs(p), |x| ps(&x)),
        AllDirs(p) => res(fs.all_dirs(p), |x| pv(&x)),
        AllFiles(p) => res(fs.all_files(p), |x| pv(&x)),
        AllPaths(p) => res(fs.all_paths(p), |x| pv(&x)),
        Cwd => res(fs.cwd(), |x| ps(&x)),
        Dirs(p) => res(fs.dirs(p), |x| pv(&x)),
        EntriesSorted(p) => res(
            fs.entries(p).and_then(|e| {
                let mut out = vec![];
                let mut budget = 10_000;
                for x in e.sort_by_name() {
                    budget -= 1;
                    if budget == 0 {
                        out.push("<NONTERMINATING>".to_string());
                        break;
                    }
                    match x {
                        Ok(en) => out.push(render_entry(&en)),
                        Err(er) => out.push(format!("Err({})", err_kind(&er))),
                    }
                }
                Ok(out.join(";"))
            }),
            |x| x,
        ),
        EntriesFollow(p) => res(
            fs.entries(p).and_then(|e| {
                let mut out = vec![];
                let mut budget = 10_000;
                for x in e.follow(true).sort_by_name() {
                    budget -= 1;
                    if budget == 0 {
                        out.push("<NONTERMINATING>".to_string());
                        break;
                    }
                    match x {
                        Ok(en) => out.push(render_entry(&en)),
                        Err(er) => out.push(format!("Err({})", err_kind(&er))),
                    }
                }
                // entries with equal names (a file and a followed link to it) have no defined order
                out.sort();
                Ok(out.join(";"))
            }),
            |x| x,
        ),
        Entry(p) => res(fs.entry(p), |e| render_entry(&e)),
        Exists(p) => Outcome::okv(fs.exists(p).to_string()),
        Files(p) => res(fs.files(p), |x| pv(&x)),
        Gid(p) => res(fs.gid(p), |x| x.to_string()),
        IsDir(p) => Outcome::okv(fs.is_dir(p).to_string()),
        IsExec(p) => Outcome::okv(fs.is_exec(p).to_string()),
        IsFile(p) => Outcome::okv(fs.is_file(p).to_string()),
        IsReadonly(p) => Outcome::okv(fs.is_readonly(p).to_string()),
        IsSymlink(p) => Outcome::okv(fs.is_symlink(p).to_string()),
        IsSymlinkDir(p) => Outcome::okv(fs.is_symlink_dir(p).to_string()),
        IsSymlinkFile(p) => Outcome::okv(fs.is_symlink_file(p).to_string()),
        Mode(p) => res(fs.mode(p), |x| format!("{:o}", x)),
        Owner(p) => res(fs.owner(p), |(u, g)| format!("{}:{}", u, g)),
        Paths(p) => res(fs.paths(p), |x| pv(&x)),
        Read(p) => res(
            fs.read(p).and_then(|mut h| {
                let mut buf = vec![];
                h.read_to_end(&mut buf)?;
                Ok(buf)
            }),
            |b| bytes_repr(&b),
        ),
        ReadAll(p) => res(fs.read_all(p), |x| x),
        ReadLines(p) => res(fs.read_lines(p), |x| format!("{:?}", x)),
        Readlink(p) => res(fs.readlink(p), |x| ps(&x)),
        ReadlinkAbs(p) => res(fs.readlink_abs(p), |x| ps(&x)),
        Root => Outcome::okv(ps(&fs.root())),
        Uid(p) => res(fs.uid(p), |x| x.to_string()),
    }
}

impl Op {
    pub fn name(&self) -> &'static str {
        use Op::*;
        match self {
            Mkfile(..) => "mkfile",
            MkfileM(..) => "mkfile_m",
            MkdirP(..) => "mkdir_p",
            MkdirM(..) => "mkdir_m",
            WriteAll(..) => "write_all",
            WriteLines(..) => "write_lines",
            AppendAll(..) => "append_all",
            AppendLine(..) => "append_line",
            AppendLines(..) => "append_lines",
            WriteHandle(..) => "write",
            AppendHandle(..) => "append",
            Remove(..) => "remove",
            RemoveAll(..) => "remove_all",
            MoveP(..) => "move_p",
            Copy(..) => "copy",
            CopyB(..) => "copy_b",
            Symlink(..) => "symlink",
            SetCwd(..) => "set_cwd",
            Chmod(..) => "chmod",
            ChmodB(..) => "chmod_b",
            Chown(..) => "chown",
            ChownB(..) => "chown_b",
            Abs(..) => "abs",
            AllDirs(..) => "all_dirs",
            AllFiles(..) => "all_files",
            AllPaths(..) => "all_paths",
            Cwd => "cwd",
            Dirs(..) => "dirs",
            EntriesSorted(..) => "entries",
            EntriesFollow(..) => "entries+follow",
            Entry(..) => "entry",
            Exists(..) => "exists",
            Files(..) => "files",
            Gid(..) => "gid",
            IsDir(..) => "is_dir",
            IsExec(..) => "is_exec",
            IsFile(..) => "is_file",
            IsReadonly(..) => "is_readonly",
            IsSymlink(..) => "is_symlink",
            IsSymlinkDir(..) => "is_symlink_dir",
            IsSymlinkFile(..) => "is_symlink_file",
            Mode(..) => "mode",
            Owner(..) => "owner",
            Paths(..) => "paths",
            Read(..) => "read",
            ReadAll(..) => "read_all",
            ReadLines(..) => "read_lines",
            Readlink(..) => "readlink",
            ReadlinkAbs(..) => "readlink_abs",
            Root => "root",
            Uid(..) => "uid",
        }
    }

    pub fn is_mutator(&self) -> bool {
        use Op::*;
        matches!(
            self,
            Mkfile(..)
                | MkfileM(..)
                | MkdirP(..)
                | MkdirM(..)
                | WriteAll(..)
                | WriteLines(..)
                | AppendAll(..)
                | AppendLine(..)
                | AppendLines(..)
                | WriteHandle(..)
                | AppendHandle(..)
                | Remove(..)
                | RemoveAll(..)
                | MoveP(..)
                | Copy(..)
                | CopyB(..)
                | Symlink(..)
                | SetCwd(..)
                | Chmod(..)
                | ChmodB(..)
                | Chown(..)
                | ChownB(..)
        )
    }

    /// path arguments (first, optional second)
    pub fn paths(&self) -> (Option<&str>, Option<&str>) {
        use Op::*;
        match self {
            MoveP(a, b) | Copy(a, b) | Symlink(a, b) | CopyB(a, b, ..) => (Some(a), Some(b)),
            Cwd | Root => (None, None),
            Mkfile(p) | MkfileM(p, _) | MkdirP(p) | MkdirM(p, _) | WriteAll(p, _) | WriteLines(p, _) | AppendAll(p, _)
            | AppendLine(p, _) | AppendLines(p, _) | WriteHandle(p, ..) | AppendHandle(p, ..) | Remove(p) | RemoveAll(p)
            | SetCwd(p) | Chmod(p, _) | ChmodB(p, ..) | Chown(p, ..) | ChownB(p, ..) | Abs(p) | AllDirs(p) | AllFiles(p)
            | AllPaths(p) | Dirs(p) | EntriesSorted(p) | EntriesFollow(p) | Entry(p) | Exists(p) | Files(p) | Gid(p) | IsDir(p) | IsExec(p)
            | IsFile(p) | IsReadonly(p) | IsSymlink(p) | IsSymlinkDir(p) | IsSymlinkFile(p) | Mode(p) | Owner(p)
            | Paths(p) | Read(p) | ReadAll(p) | ReadLines(p) | Readlink(p) | ReadlinkAbs(p) | Uid(p) => (Some(p), None),
        }
    }

    /// Same call with its path arguments rewritten (used for respelling and re-rooting)
    pub fn map_paths<F: Fn(&str, usize) -> String>(&self, f: F) -> Op {
        use Op::*;
        let g = |p: &String| f(p, 0);
        match self {
            MoveP(a, b) => MoveP(f(a, 0), f(b, 1)),
            Copy(a, b) => Copy(f(a, 0), f(b, 1)),
            CopyB(a, b, m, fo) => CopyB(f(a, 0), f(b, 1), m.clone(), *fo),
            Symlink(a, b) => Symlink(f(a, 0), f(b, 1)),
            Cwd => Cwd,
            Root => Root,
            Mkfile(p) => Mkfile(g(p)),
            MkfileM(p, m) => MkfileM(g(p), *m),
            MkdirP(p) => MkdirP(g(p)),
            MkdirM(p, m) => MkdirM(g(p), *m),
            WriteAll(p, d) => WriteAll(g(p), d.clone()),
            WriteLines(p, d) => WriteLines(g(p), d.clone()),
            AppendAll(p, d) => AppendAll(g(p), d.clone()),
            AppendLine(p, d) => AppendLine(g(p), d.clone()),
            AppendLines(p, d) => AppendLines(g(p), d.clone()),
            WriteHandle(p, c, fl) => WriteHandle(g(p), c.clone(), fl.clone()),
            AppendHandle(p, c, fl) => AppendHandle(g(p), c.clone(), fl.clone()),
            Remove(p) => Remove(g(p)),
            RemoveAll(p) => RemoveAll(g(p)),
            SetCwd(p) => SetCwd(g(p)),
            Chmod(p, m) => Chmod(g(p), *m),
            ChmodB(p, s, r, fo) => ChmodB(g(p), s.clone(), *r, *fo),
            Chown(p, u, gi) => Chown(g(p), *u, *gi),
            ChownB(p, u, gi, r, fo) => ChownB(g(p), *u, *gi, *r, *fo),
            Abs(p) => Abs(g(p)),
            AllDirs(p) => AllDirs(g(p)),
            AllFiles(p) => AllFiles(g(p)),
            AllPaths(p) => AllPaths(g(p)),
            Dirs(p) => Dirs(g(p)),
            EntriesSorted(p) => EntriesSorted(g(p)),
            EntriesFollow(p) => EntriesFollow(g(p)),
            Entry(p) => Entry(g(p)),
            Exists(p) => Exists(g(p)),
            Files(p) => Files(g(p)),
            Gid(p) => Gid(g(p)),
            IsDir(p) => IsDir(g(p)),
            IsExec(p) => IsExec(g(p)),
            IsFile(p) => IsFile(g(p)),
            IsReadonly(p) => IsReadonly(g(p)),
            IsSymlink(p) => IsSymlink(g(p)),
            IsSymlinkDir(p) => IsSymlinkDir(g(p)),
            IsSymlinkFile(p) => IsSymlinkFile(g(p)),
            Mode(p) => Mode(g(p)),
            Owner(p) => Owner(g(p)),
            Paths(p) => Paths(g(p)),
            Read(p) => Read(g(p)),
            ReadAll(p) => ReadAll(g(p)),
            ReadLines(p) => ReadLines(g(p)),
            Readlink(p) => Readlink(g(p)),
            ReadlinkAbs(p) => ReadlinkAbs(g(p)),
            Uid(p) => Uid(g(p)),
        }
    }

    pub fn render(&self) -> String {
        use Op::*;
        match self {
            WriteAll(p, d) => format!("write_all({:?}, {:?})", p, bytes_repr(d)),
            AppendAll(p, d) => format!("append_all({:?}, {:?})", p, bytes_repr(d)),
            WriteHandle(p, c, f) => format!("write({:?}) chunks={:?} flush={:?} drop", p, c.iter().map(|x| bytes_repr(x)).collect::<Vec<_>>(), f),
            AppendHandle(p, c, f) => format!("append({:?}) chunks={:?} flush={:?} drop", p, c.iter().map(|x| bytes_repr(x)).collect::<Vec<_>>(), f),
            MkfileM(p, m) => format!("mkfile_m({:?}, 0o{:o})", p, m),
            MkdirM(p, m) => format!("mkdir_m({:?}, 0o{:o})", p, m),
            Chmod(p, m) => format!("chmod({:?}, 0o{:o})", p, m),
            other => {
                let d = format!("{:?}", other);
                // Debug form "Mkfile(\"/a\")" -> "mkfile(\"/a\")"
                match d.find('(') {
                    Some(i) => format!("{}{}", other.name(), &d[i..]),
                    None => other.name().to_string(),
                }
            },
        }
    }

    pub fn to_json(&self) -> J {
        J::s(self.render())
    }
}

//! Plain tree model shared by the engines: a map from absolute path to node. The root directory is
//! implicit. Provides enumeration of all trees of a bounded namespace, materialisation into a real
//! `Memfs` (through the public API, verified through the dump hook) and onto disk (std::fs only),
//! and the two observation functions: `observe_disk` (std::fs only) and `abstract_dump` (the
//! abstraction function alpha from a `verif_dump` to a tree; undefined on malformed dumps).
use rivia::prelude::*;
use rivia::verif::Dump;
use std::collections::BTreeMap;
use std::os::unix::fs::PermissionsExt;

#[derive(Clone, Debug, PartialEq, Eq, PartialOrd, Ord, Hash)]
pub enum Kind {
    Dir,
    File(Vec<u8>),
    /// absolute, clean target path (in the same coordinate system as the tree keys)
    Link(String),
}

/// Equality / ordering / hashing deliberately ignore `lk` (the advisory kind a link reports for
/// its target); comparisons that care about it check it explicitly.
#[derive(Clone, Debug)]
pub struct Node {
    pub kind: Kind,
    /// permission bits only (0o7777 mask); links always 0o777
    pub mode: u32,
    pub uid: u32,
    pub gid: u32,
    /// links only: kind the link reports for its target (0 = unspecified, 1 = file, 2 = dir)
    pub lk: u8,
}

impl Node {
    fn key(&self) -> (&Kind, u32, u32, u32) {
        (&self.kind, self.mode, self.uid, self.gid)
    }
}
impl PartialEq for Node {
    fn eq(&self, o: &Node) -> bool {
        self.key() == o.key()
    }
}
impl Eq for Node {}
impl std::hash::Hash for Node {
    fn hash<H: std::hash::Hasher>(&self, h: &mut H) {
        self.key().hash(h)
    }
}
impl PartialOrd for Node {
    fn partial_cmp(&self, o: &Node) -> Option<std::cmp::Ordering> {
        Some(self.cmp(o))
    }
}
impl Ord for Node {
    fn cmp(&self, o: &Node) -> std::cmp::Ordering {
        self.key().cmp(&o.key())
    }
}

pub const DEF_DIR: u32 = 0o755;
pub const DEF_FILE: u32 = 0o644;
pub const DEF_LINK: u32 = 0o777;
pub const DEF_ID: u32 = 1000;

impl Node {
    pub fn dir() -> Node {
        Node { kind: Kind::Dir, mode: DEF_DIR, uid: DEF_ID, gid: DEF_ID, lk: 0 }
    }
    pub fn file(data: &[u8]) -> Node {
        Node { kind: Kind::File(data.to_vec()), mode: DEF_FILE, uid: DEF_ID, gid: DEF_ID, lk: 0 }
    }
    pub fn link(target: &str) -> Node {
        Node { kind: Kind::Link(target.to_string()), mode: DEF_LINK, uid: DEF_ID, gid: DEF_ID, lk: 0 }
    }
    pub fn with_mode(mut self, mode: u32) -> Node {
        self.mode = mode;
        self
    }
    pub fn is_dir(&self) -> bool {
        matches!(self.kind, Kind::Dir)
    }
    pub fn is_file(&self) -> bool {
        matches!(self.kind, Kind::File(_))
    }
    pub fn is_link(&self) -> bool {
        matches!(self.kind, Kind::Link(_))
    }
    pub fn kind_name(&self) -> &'static str {
        match self.kind {
            Kind::Dir => "dir",
            Kind::File(_) => "file",
            Kind::Link(_) => "link",
        }
    }
}

#[derive(Clone, Debug, PartialEq, Eq, PartialOrd, Ord, Hash, Default)]
pub struct Tree {
    pub nodes: BTreeMap<String, Node>,
}

pub fn parent_of(p: &str) -> String {
    match p.rfind('/') {
        Some(0) | None => "/".to_string(),
        Some(i) => p[..i].to_string(),
    }
}

pub fn base_of(p: &str) -> &str {
    match p.rfind('/') {
        Some(i) => &p[i + 1..],
        None => p,
    }
}

pub fn join(dir: &str, name: &str) -> String {
    if dir == "/" {
        format!("/{}", name)
    } else {
        format!("{}/{}", dir, name)
    }
}

pub fn depth_of(p: &str) -> usize {
    if p == "/" {
        0
    } else {
        p.matches('/').count()
    }
}

/// true when `p` is `anc` or lies below it
pub fn is_under(p: &str, anc: &str) -> bool {
    p == anc || anc == "/" || (p.starts_with(anc) && p.as_bytes().get(anc.len()) == Some(&b'/'))
}

impl Tree {
    pub fn new() -> Tree {
        Tree::default()
    }
    pub fn get(&self, p: &str) -> Option<&Node> {
        self.nodes.get(p)
    }
    pub fn exists(&self, p: &str) -> bool {
        p == "/" || self.nodes.contains_key(p)
    }
    pub fn is_dir(&self, p: &str) -> bool {
        p == "/" || self.nodes.get(p).map(|n| n.is_dir()).unwrap_or(false)
    }
    pub fn kind(&self, p: &str) -> &'static str {
        if p == "/" {
            return "dir";
        }
        match self.nodes.get(p) {
            None => "missing",
            Some(n) => n.kind_name(),
        }
    }
    /// finer kind used in signatures: link kinds are qualified by what they point at
    pub fn kind_detail(&self, p: &str) -> String {
        if p == "/" {
            return "root".into();
        }
        match self.nodes.get(p) {
            None => {
                let par = parent_of(p);
                if self.exists(&par) {
                    "missing".into()
                } else {
                    "missing-noparent".into()
                }
            },
            Some(n) => match &n.kind {
                Kind::Dir => {
                    if self.children(p).is_empty() {
                        "emptydir".into()
                    } else {
                        "dir".into()
                    }
                },
                Kind::File(_) => "file".into(),
                Kind::Link(t) => format!("link>{}", self.kind(t)),
            },
        }
    }
    pub fn children(&self, p: &str) -> Vec<String> {
        let prefix = if p == "/" { "/".to_string() } else { format!("{}/", p) };
        self.nodes
            .range(prefix.clone()..)
            .take_while(|(k, _)| k.starts_with(&prefix))
            .filter(|(k, _)| !k[prefix.len()..].contains('/'))
            .map(|(k, _)| k.clone())
            .collect()
    }
    /// p and everything below it
    pub fn subtree(&self, p: &str) -> Vec<String> {
        self.nodes.keys().filter(|k| is_under(k, p)).cloned().collect()
    }
    pub fn insert(&mut self, p: &str, n: Node) {
        self.nodes.insert(p.to_string(), n);
    }
    pub fn remove_subtree(&mut self, p: &str) {
        for k in self.subtree(p) {
            self.nodes.remove(&k);
        }
    }
    /// structural well-formedness of the model itself
    pub fn well_formed(&self) -> bool {
        self.nodes.keys().all(|k| k.starts_with('/') && k != "/" && self.is_dir(&parent_of(k)))
    }
    /// does any proper prefix of p name a link (i.e. the path walks *through* a link)?
    pub fn through_link(&self, p: &str) -> bool {
        let mut cur = parent_of(p);
        while cur != "/" {
            if self.nodes.get(&cur).map(|n| n.is_link()).unwrap_or(false) {
                return true;
            }
            cur = parent_of(&cur);
        }
        false
    }
    /// every link resolves to an existing non-link entry (C02's pre-state domain)
    pub fn links_resolve(&self) -> bool {
        self.nodes.values().all(|n| match &n.kind {
            Kind::Link(t) => t == "/" || self.nodes.get(t).map(|x| !x.is_link()).unwrap_or(false),
            _ => true,
        })
    }
    /// kind (1 file / 2 dir / 0 none) reached by following links from p (bounded; cycles -> 0)
    pub fn resolved_kind(&self, p: &str) -> u8 {
        let mut cur = p.to_string();
        for _ in 0..8 {
            if cur == "/" {
                return 2;
            }
            match self.nodes.get(&cur) {
                None => return 0,
                Some(n) => match &n.kind {
                    Kind::Dir => return 2,
                    Kind::File(_) => return 1,
                    Kind::Link(t) => cur = t.clone(),
                },
            }
        }
        0
    }
    /// set every link's `lk` from what it currently resolves to
    pub fn fix_link_kinds(&mut self) {
        let keys: Vec<String> = self.nodes.iter().filter(|(_, n)| n.is_link()).map(|(k, _)| k.clone()).collect();
        for k in keys {
            let lk = self.resolved_kind(&k);
            self.nodes.get_mut(&k).unwrap().lk = lk;
        }
    }
    /// equality where a link kind of 0 (unspecified) on either side matches anything
    pub fn eq_modulo_lk(&self, other: &Tree) -> bool {
        self.nodes.len() == other.nodes.len()
            && self.nodes.iter().zip(other.nodes.iter()).all(|((k1, a), (k2, b))| {
                k1 == k2 && a.kind == b.kind && a.mode == b.mode && a.uid == b.uid && a.gid == b.gid && (a.lk == b.lk || a.lk == 0 || b.lk == 0)
            })
    }
    pub fn render(&self) -> String {
        let mut s = String::new();
        for (k, n) in &self.nodes {
            if !s.is_empty() {
                s.push_str("; ");
            }
            match &n.kind {
                Kind::Dir => s.push_str(&format!("{}/", k)),
                Kind::File(d) => s.push_str(&format!("{}={:?}", k, crate::common::json::bytes_repr(d))),
                Kind::Link(t) => s.push_str(&format!("{}->{}", k, t)),
            }
            let def = match n.kind {
                Kind::Dir => DEF_DIR,
                Kind::File(_) => DEF_FILE,
                Kind::Link(_) => DEF_LINK,
            };
            if n.mode != def {
                s.push_str(&format!("[{:o}]", n.mode));
            }
            if n.uid != DEF_ID || n.gid != DEF_ID {
                s.push_str(&format!("[{}:{}]", n.uid, n.gid));
            }
        }
        if s.is_empty() {
            s.push_str("(empty)");
        }
        s
    }
    /// Re-root every key and link target under `prefix` (used to place a tree in a sandbox dir)
    pub fn rerooted(&self, prefix: &str) -> Tree {
        let mut t = Tree::new();
        for (k, n) in &self.nodes {
            let mut n2 = n.clone();
            if let Kind::Link(tg) = &n.kind {
                n2.kind = Kind::Link(reroot(prefix, tg));
            }
            t.nodes.insert(reroot(prefix, k), n2);
        }
        t
    }
}

pub fn reroot(prefix: &str, p: &str) -> String {
    if prefix == "/" || prefix.is_empty() {
        p.to_string()
    } else if p == "/" {
        prefix.to_string()
    } else {
        format!("{}{}", prefix, p)
    }
}

// ---------------------------------------------------------------------------------------------
// Enumeration
// ---------------------------------------------------------------------------------------------
#[derive(Clone, Debug, PartialEq, Eq)]
pub enum LinkDomain {
    /// no links at all
    None,
    /// every link's target exists and is not a link
    Resolving,
    /// any target from the candidate list incl. dangling, chains and cycles
    Any,
}

#[derive(Clone, Debug)]
pub struct TreeSpace {
    pub names: Vec<&'static str>,
    pub max_depth: usize,
    pub max_entries: usize,
    pub contents: Vec<Vec<u8>>,
    pub links: LinkDomain,
    /// extra link targets outside the namespace (e.g. "/zz" dangling)
    pub extra_targets: Vec<String>,
    /// allowed depth for link targets (they are drawn from namespace paths up to this depth)
    pub target_depth: usize,
}

pub fn namespace(names: &[&str], max_depth: usize) -> Vec<String> {
    let mut out = vec![];
    fn rec(names: &[&str], cur: &str, d: usize, max: usize, out: &mut Vec<String>) {
        if d == max {
            return;
        }
        for n in names {
            let p = join(cur, n);
            out.push(p.clone());
            rec(names, &p, d + 1, max, out);
        }
    }
    rec(names, "/", 0, max_depth, &mut out);
    out.sort();
    out
}

pub fn enum_trees(sp: &TreeSpace) -> Vec<Tree> {
    let paths = namespace(&sp.names, sp.max_depth);
    let mut targets: Vec<String> = namespace(&sp.names, sp.target_depth.min(sp.max_depth));
    targets.extend(sp.extra_targets.iter().cloned());
    let mut out = vec![];
    let mut cur = Tree::new();
    fn rec(sp: &TreeSpace, paths: &[String], targets: &[String], i: usize, cur: &mut Tree, out: &mut Vec<Tree>) {
        if i == paths.len() {
            if sp.links == LinkDomain::Resolving && !cur.links_resolve() {
                return;
            }
            out.push(cur.clone());
            return;
        }
        let p = &paths[i];
        // absent
        rec(sp, paths, targets, i + 1, cur, out);
        if !cur.is_dir(&parent_of(p)) || cur.nodes.len() >= sp.max_entries {
            return;
        }
        cur.insert(p, Node::dir());
        rec(sp, paths, targets, i + 1, cur, out);
        for c in &sp.contents {
            cur.insert(p, Node::file(c));
            rec(sp, paths, targets, i + 1, cur, out);
        }
        if sp.links != LinkDomain::None {
            for t in targets {
                if t == p {
                    continue;
                }
                cur.insert(p, Node::link(t));
                rec(sp, paths, targets, i + 1, cur, out);
            }
        }
        cur.nodes.remove(p);
    }
    rec(sp, &paths, &targets, 0, &mut cur, &mut out);
    out.sort_by(|a, b| a.nodes.len().cmp(&b.nodes.len()).then_with(|| a.cmp(b)));
    out
}

// ---------------------------------------------------------------------------------------------
// Independent reference for the relative form of a link target
// ---------------------------------------------------------------------------------------------
/// navigation from directory `base` to `path` (both absolute and clean); "" when equal
pub fn ref_relative(path: &str, base: &str) -> String {
    let pc: Vec<&str> = path.split('/').filter(|x| !x.is_empty()).collect();
    let bc: Vec<&str> = base.split('/').filter(|x| !x.is_empty()).collect();
    let mut i = 0;
    while i < pc.len() && i < bc.len() && pc[i] == bc[i] {
        i += 1;
    }
    let mut parts: Vec<&str> = vec![];
    for _ in i..bc.len() {
        parts.push("..");
    }
    parts.extend(&pc[i..]);
    parts.join("/")
}

// ---------------------------------------------------------------------------------------------
// Materialisation
// ---------------------------------------------------------------------------------------------
/// Build a fresh Memfs holding `tree` placed under `prefix` ("/" for none). Uses the public API and
/// then verifies the result through the dump hook; Err means the API could not produce the tree.
pub fn materialize_memfs(tree: &Tree, prefix: &str) -> Result<Memfs, String> {
    let fs = Memfs::new();
    materialize_into(&fs, tree, prefix)?;
    let want = tree.rerooted(prefix);
    let got = abstract_dump(&fs.verif_dump())?;
    let mut want_full = want.clone();
    // ancestors of the prefix are plain directories
    let mut anc = prefix.to_string();
    while anc != "/" && !anc.is_empty() {
        want_full.nodes.entry(anc.clone()).or_insert_with(Node::dir);
        anc = parent_of(&anc);
    }
    if !got.eq_modulo_lk(&want_full) {
        return Err(format!("materialisation mismatch: wanted [{}] got [{}]", want_full.render(), got.render()));
    }
    Ok(fs)
}

pub fn materialize_into<V: VirtualFileSystem>(fs: &V, tree: &Tree, prefix: &str) -> Result<(), String> {
    let e = |x: RvError| x.to_string();
    if prefix != "/" {
        fs.mkdir_p(prefix).map_err(e)?;
    }
    // non-links first (sorted order = parents first), then links in passes so targets exist first
    for (k, n) in &tree.nodes {
        let p = reroot(prefix, k);
        match &n.kind {
            Kind::Dir => {
                fs.mkdir_m(&p, n.mode).map_err(e)?;
            },
            Kind::File(d) => {
                fs.write_all(&p, d).map_err(e)?;
                if n.mode != DEF_FILE {
                    fs.chmod_b(&p).map_err(e)?.no_recurse().all(n.mode).exec().map_err(e)?;
                }
            },
            Kind::Link(_) => {},
        }
    }
    let mut pending: Vec<(&String, &String)> = tree
        .nodes
        .iter()
        .filter_map(|(k, n)| if let Kind::Link(t) = &n.kind { Some((k, t)) } else { None })
        .collect();
    let mut created: std::collections::BTreeSet<&String> = Default::default();
    while !pending.is_empty() {
        let before = pending.len();
        let mut rest = vec![];
        for (k, t) in pending {
            let target_is_pending_link = tree.nodes.get(t).map(|x| x.is_link()).unwrap_or(false) && !created.contains(t);
            if target_is_pending_link {
                rest.push((k, t));
            } else {
                fs.symlink(reroot(prefix, k), reroot(prefix, t)).map_err(e)?;
                created.insert(k);
            }
        }
        if rest.len() == before {
            // only link cycles remain: create them in key order
            for (k, t) in &rest {
                fs.symlink(reroot(prefix, k), reroot(prefix, t)).map_err(e)?;
            }
            break;
        }
        pending = rest;
    }
    for (k, n) in &tree.nodes {
        if n.uid != DEF_ID || n.gid != DEF_ID {
            fs.chown_b(reroot(prefix, k)).map_err(e)?.recurse(false).owner(n.uid, n.gid).exec().map_err(e)?;
        }
    }
    Ok(())
}

/// Create `tree` on disk below `root` using std::fs only. Links are written in relative form.
pub fn materialize_disk(tree: &Tree, root: &str) -> std::io::Result<()> {
    for (k, n) in &tree.nodes {
        let p = reroot(root, k);
        match &n.kind {
            Kind::Dir => {
                std::fs::create_dir(&p)?;
            },
            Kind::File(d) => {
                std::fs::write(&p, d)?;
            },
            Kind::Link(t) => {
                let abs_t = reroot(root, t);
                let rel = ref_relative(&abs_t, &parent_of(&p));
                let text = if rel.is_empty() { ".".to_string() } else { rel };
                std::os::unix::fs::symlink(text, &p)?;
            },
        }
    }
    // modes last and deepest first so restrictive directory modes cannot block creation
    for (k, n) in tree.nodes.iter().rev() {
        if !n.is_link() {
            std::fs::set_permissions(reroot(root, k), std::fs::Permissions::from_mode(n.mode))?;
        }
    }
    Ok(())
}

/// Observe the tree below `root` with std::fs only (independent observer). Keys are relative to
/// root ("/a/b"); link targets are resolved lexically against the link's directory and, when they
/// lie under root, expressed relative to it (otherwise kept absolute with a leading "!").
pub fn observe_disk(root: &str) -> std::io::Result<Tree> {
    use std::os::unix::fs::MetadataExt;
    let mut t = Tree::new();
    fn rec(root: &str, rel: &str, t: &mut Tree) -> std::io::Result<()> {
        let dir = reroot(root, rel);
        let mut names: Vec<String> = vec![];
        for e in std::fs::read_dir(&dir)? {
            names.push(e?.file_name().to_string_lossy().into_owned());
        }
        names.sort();
        for name in names {
            let k = join(rel, &name);
            let p = reroot(root, &k);
            let md = std::fs::symlink_metadata(&p)?;
            let ft = md.file_type();
            let (uid, gid) = (md.uid(), md.gid());
            if ft.is_symlink() {
                let text = std::fs::read_link(&p)?.to_string_lossy().into_owned();
                let abs = if text.starts_with('/') { text.clone() } else { format!("{}/{}", parent_of(&p), text) };
                let abs = crate::models::go_clean::go_clean(&abs);
                let tg = if is_under(&abs, root) {
                    let r = &abs[root.len()..];
                    if r.is_empty() {
                        "/".to_string()
                    } else {
                        r.to_string()
                    }
                } else {
                    format!("!{}", abs)
                };
                let lk = match std::fs::metadata(&p) {
                    Ok(m) if m.is_dir() => 2,
                    Ok(_) => 1,
                    Err(_) => 0,
                };
                t.insert(&k, Node { kind: Kind::Link(tg), mode: md.permissions().mode() & 0o7777, uid, gid, lk });
            } else if ft.is_dir() {
                t.insert(&k, Node { kind: Kind::Dir, mode: md.permissions().mode() & 0o7777, uid, gid, lk: 0 });
                rec(root, &k, t)?;
            } else {
                let data = std::fs::read(&p)?;
                t.insert(&k, Node { kind: Kind::File(data), mode: md.permissions().mode() & 0o7777, uid, gid, lk: 0 });
            }
        }
        Ok(())
    }
    rec(root, "/", &mut t)?;
    Ok(t)
}

// ---------------------------------------------------------------------------------------------
// Abstraction function from a Memfs dump
// ---------------------------------------------------------------------------------------------
/// alpha: defined only on dumps that satisfy the structural invariants needed to read a tree off
/// them (every entry has a stored parent directory, every file entry has data). Returns Err with
/// the reason otherwise - callers treat that as "C03 territory", never as a C01 verdict.
pub fn abstract_dump(d: &Dump) -> Result<Tree, String> {
    let mut t = Tree::new();
    let files: BTreeMap<&str, &rivia::verif::FileDump> = d.files.iter().map(|f| (f.key.as_str(), f)).collect();
    for e in &d.entries {
        if e.key == "/" {
            continue;
        }
        let node = if e.link {
            Node { kind: Kind::Link(e.alt.clone()), mode: e.mode & 0o7777, uid: e.uid, gid: e.gid, lk: if e.dir { 2 } else if e.file { 1 } else { 0 } }
        } else if e.dir {
            Node { kind: Kind::Dir, mode: e.mode & 0o7777, uid: e.uid, gid: e.gid, lk: 0 }
        } else if e.file {
            match files.get(e.key.as_str()) {
                Some(f) => Node { kind: Kind::File(f.data.clone()), mode: e.mode & 0o7777, uid: e.uid, gid: e.gid, lk: 0 },
                None => return Err(format!("file entry {} has no data", e.key)),
            }
        } else {
            return Err(format!("entry {} has no kind", e.key));
        };
        t.insert(&e.key, node);
    }
    for k in t.nodes.keys() {
        let par = parent_of(k);
        if par != "/" && !t.nodes.get(&par).map(|n| n.is_dir()).unwrap_or(false) {
            return Err(format!("entry {} has no real parent directory", k));
        }
    }
    Ok(t)
}

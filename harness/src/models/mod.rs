pub mod go_clean;
pub mod invariants;
pub mod ops;
pub mod ref_abs;
pub mod ref_mode;
pub mod reffs;
pub mod tree;

pub mod go_clean;
pub mod invariants;
pub mod ops;
pub mod ref_abs;
pub mod ref_mode;
pub mod ref_walk;
pub mod reffs;
pub mod tree;

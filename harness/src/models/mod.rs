pub mod go_clean;

pub mod go_clean;
pub mod invariants;
pub mod tree;

//! Reference semantics of rivia's symbolic chmod grammar, written from the documentation of
//! `Chmod::sym` ("repeatable pattern `[dfa]:[ugoa][-+=][rwx]`, all segments required, repetitions
//! separated by a comma"), not from the state machine in `sys::mode`.
//!
//! A clause is `T ':' G+ O P+` with T in {d,f,a}, G in {u,g,o,a}, O in {-,+,=}, P in {r,w,x}.
//! Clauses are applied left to right. A clause whose target letter does not match the kind of the
//! entry is skipped (later clauses still apply). `+` ors the named permissions into the named
//! groups, `-` clears them, `=` makes the named groups hold exactly the named permissions. Bits
//! outside 0o777 (file type, setuid...) are never touched.

#[derive(Clone, Copy, Debug, PartialEq, Eq)]
pub struct Clause {
    /// b'd', b'f' or b'a'
    pub target: u8,
    /// union of 0o700 / 0o070 / 0o007
    pub groups: u32,
    /// b'-', b'+' or b'='
    pub op: u8,
    /// union of 0o444 / 0o222 / 0o111
    pub perms: u32,
}

/// strict parse of one clause: exactly one target letter
pub fn parse_clause(s: &str) -> Option<Clause> {
    let b = s.as_bytes();
    if b.len() < 5 {
        return None;
    }
    let target = match b[0] {
        b'd' | b'f' | b'a' => b[0],
        _ => return None,
    };
    if b[1] != b':' {
        return None;
    }
    let mut i = 2;
    let mut groups = 0;
    while i < b.len() {
        groups |= match b[i] {
            b'u' => 0o700,
            b'g' => 0o070,
            b'o' => 0o007,
            b'a' => 0o777,
            _ => break,
        };
        i += 1;
    }
    if groups == 0 || i >= b.len() {
        return None;
    }
    let op = match b[i] {
        b'-' | b'+' | b'=' => b[i],
        _ => return None,
    };
    i += 1;
    let mut perms = 0;
    let start = i;
    while i < b.len() {
        perms |= match b[i] {
            b'r' => 0o444,
            b'w' => 0o222,
            b'x' => 0o111,
            _ => return None,
        };
        i += 1;
    }
    if i == start {
        return None;
    }
    Some(Clause { target, groups, op, perms })
}

/// strict parse of a whole expression (every clause well-formed, no empty clause)
pub fn parse_expr(s: &str) -> Option<Vec<Clause>> {
    if s.is_empty() {
        return None;
    }
    s.split(',').map(parse_clause).collect()
}

#[derive(Clone, Copy, Debug, PartialEq, Eq)]
pub enum FirstClause {
    /// the expression is empty: "no symbolic form given", nothing is demanded
    Empty,
    /// matches the documented pattern exactly
    WellFormed,
    /// not the documented pattern but a reading of it some would accept (several target letters
    /// before the colon, as rivia's own unit tests use "ad:u+r"): nothing is demanded
    Gray,
    /// does not match the pattern under any reading: must be rejected
    Malformed,
}

/// classify the first clause (text up to the first comma) of an expression
pub fn classify_first(s: &str) -> FirstClause {
    if s.is_empty() {
        return FirstClause::Empty;
    }
    let first = s.split(',').next().unwrap_or("");
    if parse_clause(first).is_some() {
        return FirstClause::WellFormed;
    }
    // lenient reading: [dfa]+ ':' rest-as-strict
    let b = first.as_bytes();
    let mut i = 0;
    while i < b.len() && matches!(b[i], b'd' | b'f' | b'a') {
        i += 1;
    }
    if i >= 2 && i < b.len() && b[i] == b':' {
        let rest = format!("a{}", &first[i..]);
        if parse_clause(&rest).is_some() {
            return FirstClause::Gray;
        }
    }
    FirstClause::Malformed
}

/// apply one clause to permission bits of an entry that is a directory (`is_dir`) or a file
pub fn apply_clause(mode: u32, is_dir: bool, c: &Clause) -> u32 {
    let selected = match c.target {
        b'a' => true,
        b'd' => is_dir,
        _ => !is_dir,
    };
    if !selected {
        return mode;
    }
    let bits = c.groups & c.perms;
    match c.op {
        b'+' => mode | bits,
        b'-' => mode & !bits,
        _ => (mode & !c.groups) | bits,
    }
}

pub fn apply_expr(mode: u32, is_dir: bool, cs: &[Clause]) -> u32 {
    cs.iter().fold(mode, |m, c| apply_clause(m, is_dir, c))
}

pub const TARGETS: [&str; 3] = ["d", "f", "a"];
pub const GROUPS: [&str; 6] = ["u", "g", "o", "a", "ug", "go"];
pub const OPS: [&str; 3] = ["-", "+", "="];
pub const PERMS: [&str; 7] = ["r", "w", "x", "rw", "rx", "wx", "rwx"];

/// the 378 single clauses of the sweep, simplest first
pub fn all_clauses() -> Vec<String> {
    let mut v = vec![];
    for t in TARGETS {
        for g in GROUPS {
            for o in OPS {
                for p in PERMS {
                    v.push(format!("{}:{}{}{}", t, g, o, p));
                }
            }
        }
    }
    v
}

/// self test of the reference against literal examples taken from the rivia documentation and a
/// few hand-computed ones; returns a description of the first failure
pub fn self_test() -> Result<(), String> {
    let cases: [(u32, bool, &str, u32); 12] = [
        (0o644, false, "f:a+x", 0o755),
        (0o755, false, "f:a-x", 0o644),
        (0o644, false, "f:a-w", 0o444),
        (0o777, false, "a:go-rwx", 0o700),
        (0o755, true, "a:go-rwx", 0o700),
        (0o000, false, "a:a=rwx,a:g=rw,a:o=r", 0o764),
        (0o077, false, "f:u=rwx,f:g=rw,f:o-rwx", 0o760),
        (0o300, true, "f:u+r", 0o300),
        (0o300, false, "f:ug+r", 0o740),
        (0o755, true, "f:a+w,d:a+w", 0o777),
        (0o644, false, "d:a=x,f:o=w", 0o642),
        (0o644, false, "f:a+r,f:a-wx", 0o444),
    ];
    for (m, d, s, want) in cases {
        let cs = parse_expr(s).ok_or_else(|| format!("reference cannot parse {:?}", s))?;
        let got = apply_expr(m, d, &cs);
        if got != want {
            return Err(format!("ref_mode({:o}, dir={}, {:?}) = {:o}, expected {:o}", m, d, s, got, want));
        }
    }
    for (s, want) in [
        ("", FirstClause::Empty),
        ("f:u+r", FirstClause::WellFormed),
        ("f:u+r,", FirstClause::WellFormed),
        ("f:u+r,zz", FirstClause::WellFormed),
        ("ad:u+r", FirstClause::Gray),
        ("sf:u+r", FirstClause::Malformed),
        ("f:+r", FirstClause::Malformed),
        ("f:u+", FirstClause::Malformed),
        ("f:ur", FirstClause::Malformed),
        ("f", FirstClause::Malformed),
        (",f:u+r", FirstClause::Malformed),
        (":u+r", FirstClause::Malformed),
        ("f:u+r+", FirstClause::Malformed),
    ] {
        if classify_first(s) != want {
            return Err(format!("classify_first({:?}) = {:?}, expected {:?}", s, classify_first(s), want));
        }
    }
    if all_clauses().len() != 378 || all_clauses().iter().any(|c| parse_clause(c).is_none()) {
        return Err("clause table broken".into());
    }
    Ok(())
}

//! C03 structural invariants evaluated on a complete `verif_dump` of a Memfs.
use rivia::verif::Dump;
use std::collections::{BTreeMap, BTreeSet};

use super::tree::{base_of, parent_of};

/// Returns (invariant code, detail) for every broken invariant; empty = well-formed.
pub fn check(d: &Dump) -> Vec<(&'static str, String)> {
    let mut out = vec![];
    let entries: BTreeMap<&str, &rivia::verif::EntryDump> = d.entries.iter().map(|e| (e.key.as_str(), e)).collect();
    let files: BTreeSet<&str> = d.files.iter().map(|f| f.key.as_str()).collect();

    // I1 root exists, is a non-link dir; root == "/"; cwd absolute
    match entries.get("/") {
        None => out.push(("I1-root-missing", "no entry stored under /".to_string())),
        Some(r) => {
            if !r.dir || r.link || r.file {
                out.push(("I1-root-kind", format!("root entry dir={} file={} link={}", r.dir, r.file, r.link)));
            }
        },
    }
    if d.root != "/" {
        out.push(("I1-root-path", format!("root is {:?}", d.root)));
    }
    if !d.cwd.starts_with('/') {
        out.push(("I1-cwd-relative", format!("cwd is {:?}", d.cwd)));
    }
    // I8 lock not poisoned
    if d.poisoned {
        out.push(("I8-poisoned", "the filesystem lock is poisoned".to_string()));
    }
    for (k, e) in &entries {
        // I5 entry reports the key it is stored under
        if e.path != *k {
            out.push(("I5-stale-path", format!("entry stored under {} reports path {}", k, e.path)));
        }
        if !k.starts_with('/') {
            out.push(("I5-relative-key", format!("entry stored under relative key {:?}", k)));
            continue;
        }
        if *k != "/" {
            // I2 parent exists, is a real directory, lists the name
            let par = parent_of(k);
            match entries.get(par.as_str()) {
                None => out.push(("I2-orphan", format!("{} exists but its parent {} does not", k, par))),
                Some(p) => {
                    if !p.dir {
                        out.push(("I2-parent-not-dir", format!("parent {} of {} is not a directory", par, k)));
                    } else if p.link {
                        out.push(("I2-parent-is-link", format!("parent {} of {} is a link, not a real directory", par, k)));
                    }
                    let listed = p.children.as_ref().map(|c| c.iter().any(|n| n == base_of(k))).unwrap_or(false);
                    if !listed {
                        out.push(("I2-unlisted", format!("{} exists but {} does not list {:?}", k, par, base_of(k))));
                    }
                },
            }
        }
        // I3 every listed child exists ; I7 only real directories list children
        if let Some(ch) = &e.children {
            if !ch.is_empty() && (!e.dir || e.link) {
                out.push(("I7-nondir-lists-children", format!("{} (dir={} link={}) lists children {:?}", k, e.dir, e.link, ch)));
            }
            for n in ch {
                let c = super::tree::join(k, n);
                if !entries.contains_key(c.as_str()) {
                    out.push(("I3-dangling-child", format!("{} lists {:?} which does not exist", k, n)));
                }
            }
            let uniq: BTreeSet<&String> = ch.iter().collect();
            if uniq.len() != ch.len() {
                out.push(("I3-duplicate-child", format!("{} lists a name twice: {:?}", k, ch)));
            }
        }
        // I4 exactly the regular non-link files have byte content
        let should_have_data = e.file && !e.link && !e.dir;
        if should_have_data && !files.contains(k) {
            out.push(("I4-file-without-data", format!("regular file {} has no stored content", k)));
        }
        if !should_have_data && files.contains(k) {
            out.push(("I4-data-on-nonfile", format!("{} (dir={} file={} link={}) has stored content", k, e.dir, e.file, e.link)));
        }
        if e.dir && e.file {
            out.push(("I4-two-kinds", format!("{} is both dir and file", k)));
        }
        if !e.dir && !e.file && !e.link {
            out.push(("I4-no-kind", format!("{} has no kind", k)));
        }
    }
    for f in &d.files {
        if !entries.contains_key(f.key.as_str()) {
            out.push(("I4-dangling-data", format!("content stored under {} without an entry", f.key)));
        }
    }
    out
}

/// I6: recursive listing from the root reaches exactly the set of existing paths and exists()
/// agrees; evaluated through the public API on a live instance.
pub fn check_listing(fs: &rivia::prelude::Memfs, d: &Dump) -> Vec<(&'static str, String)> {
    use rivia::prelude::*;
    let mut out = vec![];
    let keys: BTreeSet<String> = d.entries.iter().filter(|e| e.key != "/").map(|e| e.key.clone()).collect();
    match std::panic::catch_unwind(std::panic::AssertUnwindSafe(|| fs.all_paths("/"))) {
        Ok(Ok(v)) => {
            let listed: BTreeSet<String> = v.iter().map(|p| p.to_string_lossy().into_owned()).collect();
            if listed.len() != v.len() {
                out.push(("I6-listing-duplicates", format!("all_paths(/) returned duplicates: {:?}", v)));
            }
            if listed != keys {
                let missing: Vec<&String> = keys.difference(&listed).collect();
                let extra: Vec<&String> = listed.difference(&keys).collect();
                out.push(("I6-listing-mismatch", format!("all_paths(/) misses {:?} and has extra {:?}", missing, extra)));
            }
        },
        Ok(Err(e)) => out.push(("I6-listing-error", format!("all_paths(/) failed: {}", e))),
        Err(_) => out.push(("I6-listing-panic", "all_paths(/) panicked".to_string())),
    }
    for k in &keys {
        if !fs.exists(k) {
            out.push(("I6-exists-disagrees", format!("{} is stored but exists() is false", k)));
        }
    }
    out
}

//! Byte-level transliteration of Go's `path.Clean` (the reference C14 names).

pub fn go_clean(path: &str) -> String {
    let p = path.as_bytes();
    if p.is_empty() {
        return ".".to_string();
    }
    let rooted = p[0] == b'/';
    let n = p.len();
    let mut out: Vec<u8> = Vec::with_capacity(n);
    let (mut r, mut dotdot) = (0usize, 0usize);
    if rooted {
        out.push(b'/');
        r = 1;
        dotdot = 1;
    }
    while r < n {
        if p[r] == b'/' {
            r += 1;
        } else if p[r] == b'.' && (r + 1 == n || p[r + 1] == b'/') {
            r += 1;
        } else if p[r] == b'.' && p[r + 1] == b'.' && (r + 2 == n || p[r + 2] == b'/') {
            r += 2;
            if out.len() > dotdot {
                // can backtrack
                let mut w = out.len() - 1;
                while w > dotdot && out[w] != b'/' {
                    w -= 1;
                }
                out.truncate(w);
            } else if !rooted {
                // cannot backtrack, but not rooted, so append .. element
                if !out.is_empty() {
                    out.push(b'/');
                }
                out.push(b'.');
                out.push(b'.');
                dotdot = out.len();
            }
        } else {
            // real path element; add slash if needed
            if (rooted && out.len() != 1) || (!rooted && !out.is_empty()) {
                out.push(b'/');
            }
            while r < n && p[r] != b'/' {
                out.push(p[r]);
                r += 1;
            }
        }
    }
    if out.is_empty() {
        return ".".to_string();
    }
    String::from_utf8(out).expect("go_clean only cuts at '/' boundaries")
}

#[cfg(test)]
mod tests {
    use super::go_clean;
    #[test]
    fn go_table() {
        // cases from Go's path_test.go
        for (a, b) in [
            ("", "."), ("abc", "abc"), ("abc/def", "abc/def"), ("a/b/c", "a/b/c"), (".", "."), ("..", ".."),
            ("../..", "../.."), ("../../abc", "../../abc"), ("/abc", "/abc"), ("/", "/"), ("abc/", "abc"),
            ("abc/def/", "abc/def"), ("a/b/c/", "a/b/c"), ("./", "."), ("../", ".."), ("../../", "../.."),
            ("/abc/", "/abc"), ("abc//def//ghi", "abc/def/ghi"), ("//abc", "/abc"), ("///abc", "/abc"),
            ("//abc//", "/abc"), ("abc//", "abc"), ("abc/./def", "abc/def"), ("/./abc/def", "/abc/def"),
            ("abc/.", "abc"), ("abc/def/ghi/../jkl", "abc/def/jkl"), ("abc/def/../ghi/../jkl", "abc/jkl"),
            ("abc/def/..", "abc"), ("abc/def/../..", "."), ("/abc/def/../..", "/"), ("abc/def/../../..", ".."),
            ("/abc/def/../../..", "/"), ("abc/def/../../../ghi/jkl/../../../mno", "../../mno"),
            ("abc/./../def", "def"), ("abc//./../def", "def"), ("abc/../../././../def", "../../def"),
        ] {
            assert_eq!(go_clean(a), b, "input {:?}", a);
        }
    }
}

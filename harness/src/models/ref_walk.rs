//! ref_walk: what `entries()` with a given option set denotes on a model tree, written from the
//! statement of C08 and the doc comments of `Entries` (NOT from `EntriesIter::process`):
//!
//! * the start entry has depth 0; an entry is *selected* iff `min <= depth` and the filter accepts it
//!   (`dirs()`/`files()` = `Entry::is_dir`/`is_file` of the entry, custom = the predicate);
//! * a directory is descended into iff `depth < max` and it is a real directory, or `follow` is on and
//!   it is a link whose target is a real directory. A followed link is reported the way rivia
//!   documents it (`path()` = the target, `alt()` = the link), so the children of a followed link
//!   carry the *target's* path as prefix; they appear once per followed link;
//! * with `follow`, a link whose target directory is already on the current descent path is a link
//!   loop: a `LinkLooping` error item takes the place of the entry and nothing below it is visited
//!   (mandatory where the link would have been descended into, i.e. `depth < max`; where it would not
//!   have been descended into anyway either the error or the plain entry is accepted);
//! * a followed link whose target is itself a link (chain) is left unspecified (`unspecified` flag):
//!   the statement does not say whether chains are resolved.
//!
//! `validate` then checks an observed item sequence against the expectation: per item filter check,
//! exact multiset, and legal linearisation (parent before contents / after with contents_first,
//! subtrees contiguous, sibling name order, kind grouping; ties and unsorted sibling order free).
use super::tree::{base_of, Kind, Tree};
use std::collections::BTreeMap;

#[derive(Clone, Copy, Debug, PartialEq, Eq, PartialOrd, Ord, Hash)]
pub enum Filter {
    None,
    Dirs,
    Files,
    /// custom predicate through `filter_p`: file name of the reported path == "a"
    NameA,
}

#[derive(Clone, Copy, Debug, PartialEq, Eq, PartialOrd, Ord, Hash)]
pub enum Order {
    None,
    Name,
    DirsFirst,
    FilesFirst,
}

#[derive(Clone, Copy, Debug, PartialEq, Eq)]
pub struct WalkOpts {
    /// effective window (after the builder's documented auto-correction)
    pub min: usize,
    pub max: usize,
    pub filter: Filter,
    pub follow: bool,
    pub order: Order,
    pub contents_first: bool,
}

/// Documented auto-correction: "Setting `min_depth` first will autocorrect later calls to `max_depth`
/// to be consistent in relation to `min_depth`. The inverse would be true if `max_depth` was called first."
pub fn effective_window(min_arg: usize, max_arg: usize, max_first: bool) -> (usize, usize) {
    if !max_first {
        (min_arg, max_arg.max(min_arg))
    } else {
        (min_arg.min(max_arg), max_arg)
    }
}

/// What the `Entry` accessors of the backend report for the entry stored at a location
#[derive(Clone, Copy, Debug, Default, PartialEq, Eq, PartialOrd, Ord, Hash)]
pub struct Facts {
    pub is_dir: bool,
    pub is_file: bool,
    pub is_link: bool,
}

impl Facts {
    pub fn kind(&self) -> &'static str {
        match (self.is_link, self.is_dir, self.is_file) {
            (true, true, _) => "link>dir",
            (true, false, true) => "link>file",
            (true, false, false) => "link>?",
            (false, true, _) => "dir",
            (false, false, true) => "file",
            _ => "nokind",
        }
    }
}

#[derive(Clone, Copy, Debug, PartialEq, Eq)]
pub enum NodeKind {
    Normal,
    /// a LinkLooping error item is required here
    LoopErr,
    /// link loop at a place that would not be descended into anyway: error or plain entry
    LoopOptional,
}

#[derive(Clone, Debug)]
pub struct WNode {
    /// where the entry lives (for a link: the link's own path)
    pub loc: String,
    /// the path the yielded entry reports (the target for a followed link)
    pub path: String,
    pub facts: Facts,
    pub depth: usize,
    pub kind: NodeKind,
    /// selected by window + filter
    pub yields: bool,
    pub children: Vec<WNode>,
    /// min / max number of items the whole subtree contributes
    pub cnt_min: usize,
    pub cnt_max: usize,
}

pub struct Expected {
    pub root: WNode,
    /// a link chain was met while following: only the weak checks apply
    pub unspecified: bool,
}

pub fn filter_accepts(f: Filter, facts: &Facts, reported_path: &str) -> bool {
    match f {
        Filter::None => true,
        Filter::Dirs => facts.is_dir,
        Filter::Files => facts.is_file,
        Filter::NameA => base_of(reported_path) == "a" && reported_path != "/",
    }
}

pub fn expected(tree: &Tree, facts: &BTreeMap<String, Facts>, start: &str, o: &WalkOpts) -> Expected {
    let mut unspecified = false;
    let mut stack: Vec<String> = vec![];
    let root = build(tree, facts, o, start, 0, &mut stack, &mut unspecified);
    Expected { root, unspecified }
}

fn build(tree: &Tree, facts: &BTreeMap<String, Facts>, o: &WalkOpts, loc: &str, depth: usize, stack: &mut Vec<String>, unspec: &mut bool) -> WNode {
    let f = facts.get(loc).copied().unwrap_or_default();
    let link_target: Option<&String> = match tree.get(loc).map(|n| &n.kind) {
        Some(Kind::Link(t)) => Some(t),
        _ => None,
    };
    let real_dir = tree.is_dir(loc);
    let mut path = loc.to_string();
    let mut descend: Option<String> = if real_dir { Some(loc.to_string()) } else { None };
    let mut followed_dir_link = false;
    if let (Some(t), true) = (link_target, o.follow) {
        path = t.clone();
        if tree.is_dir(t) {
            descend = Some(t.clone());
            followed_dir_link = true;
        } else if tree.get(t).map(|n| n.is_link()).unwrap_or(false) {
            *unspec = true;
        }
    }
    let yields = depth >= o.min && filter_accepts(o.filter, &f, &path);
    let mut node = WNode { loc: loc.to_string(), path, facts: f, depth, kind: NodeKind::Normal, yields, children: vec![], cnt_min: 0, cnt_max: 0 };
    if followed_dir_link && stack.iter().any(|s| Some(s) == descend.as_ref()) {
        node.kind = if depth < o.max { NodeKind::LoopErr } else { NodeKind::LoopOptional };
    } else if let Some(d) = descend {
        if depth < o.max {
            stack.push(d.clone());
            for c in tree.children(&d) {
                node.children.push(build(tree, facts, o, &c, depth + 1, stack, unspec));
            }
            stack.pop();
        }
    }
    let (mut lo, mut hi) = match node.kind {
        NodeKind::Normal => (yields as usize, yields as usize),
        NodeKind::LoopErr => (1, 1),
        NodeKind::LoopOptional => (yields as usize, 1),
    };
    for c in &node.children {
        lo += c.cnt_min;
        hi += c.cnt_max;
    }
    node.cnt_min = lo;
    node.cnt_max = hi;
    node
}

/// One observed item, already translated to model coordinates
#[derive(Clone, Debug, PartialEq, Eq, PartialOrd, Ord, Hash)]
pub enum Obs {
    Ent { loc: String, path: String, facts: Facts },
    Loop { payload: String },
    OtherErr(String),
}

impl Obs {
    pub fn render(&self) -> String {
        match self {
            Obs::Ent { loc, path, facts } => {
                if loc == path {
                    format!("{}[{}]", path, facts.kind())
                } else {
                    format!("{}(via {})[{}]", path, loc, facts.kind())
                }
            },
            Obs::Loop { payload } => format!("Err(LinkLooping {})", payload),
            Obs::OtherErr(m) => format!("Err({})", m),
        }
    }
}

pub fn render_obs(v: &[Obs]) -> String {
    format!("[{}]", v.iter().map(|x| x.render()).collect::<Vec<_>>().join(", "))
}

/// Pre-order rendering of the expectation (selected items only; `!` marks loop errors, `?` optional)
pub fn render_expected(n: &WNode) -> String {
    fn rec(n: &WNode, out: &mut Vec<String>) {
        match n.kind {
            NodeKind::LoopErr => out.push(format!("!LinkLooping({})", n.path)),
            NodeKind::LoopOptional => out.push(format!("?LinkLooping({})|{}", n.path, if n.yields { n.loc.as_str() } else { "-" })),
            NodeKind::Normal => {
                if n.yields {
                    if n.loc == n.path {
                        out.push(format!("{}[{}]", n.path, n.facts.kind()));
                    } else {
                        out.push(format!("{}(via {})[{}]", n.path, n.loc, n.facts.kind()));
                    }
                }
            },
        }
        if !n.children.is_empty() {
            let mut inner = vec![];
            for c in &n.children {
                rec(c, &mut inner);
            }
            if !inner.is_empty() {
                out.push(format!("{{{}}}", inner.join(", ")));
            }
        }
    }
    let mut out = vec![];
    rec(n, &mut out);
    format!("[{}]", out.join(", "))
}

#[derive(Clone, Debug, PartialEq, Eq)]
pub struct Discrepancy {
    /// coarse class used in signatures
    pub kind: String,
    pub detail: String,
}

fn disc(kind: String, detail: String) -> Option<Discrepancy> {
    Some(Discrepancy { kind, detail })
}

/// Checks that hold whatever the tree denotes: nothing a filter rejects, no foreign error items
pub fn validate_items(obs: &[Obs], o: &WalkOpts) -> Option<Discrepancy> {
    let mut found: Vec<Discrepancy> = vec![];
    for it in obs {
        match it {
            Obs::OtherErr(m) => found.push(Discrepancy { kind: "unexpected-error-item".to_string(), detail: format!("error item {:?}", m) }),
            Obs::Ent { path, facts, .. } => {
                if !filter_accepts(o.filter, facts, path) {
                    found.push(Discrepancy {
                        kind: format!("yields-entry-the-filter-rejects({})", facts.kind()),
                        detail: format!("{} was yielded although the {:?} filter rejects it", it.render(), o.filter),
                    });
                }
            },
            Obs::Loop { .. } => {
                if !o.follow {
                    found.push(Discrepancy { kind: "LinkLooping-without-follow".to_string(), detail: format!("{} although links are not followed", it.render()) });
                }
            },
        }
    }
    pick(found)
}

/// deterministic choice that does not depend on the (possibly unsorted) item order
fn pick(mut found: Vec<Discrepancy>) -> Option<Discrepancy> {
    found.sort_by(|a, b| a.kind.cmp(&b.kind).then_with(|| a.detail.cmp(&b.detail)));
    found.into_iter().next()
}

fn collect<'a>(n: &'a WNode, out: &mut Vec<&'a WNode>) {
    out.push(n);
    for c in &n.children {
        collect(c, out);
    }
}

/// Full validation: items, exact multiset, legal linearisation
pub fn validate(exp: &WNode, obs: &[Obs], o: &WalkOpts) -> Option<Discrepancy> {
    if let Some(d) = validate_items(obs, o) {
        return Some(d);
    }
    let mut nodes = vec![];
    collect(exp, &mut nodes);
    // ---- multiset -----------------------------------------------------------------------------
    let mut req: BTreeMap<(&str, &str), (usize, usize, Facts)> = BTreeMap::new(); // key -> (required, optional, facts)
    let (mut loops_req, mut opt_yielding, mut opt_silent) = (0usize, 0usize, 0usize);
    for n in &nodes {
        match n.kind {
            NodeKind::Normal => {
                if n.yields {
                    req.entry((n.loc.as_str(), n.path.as_str())).or_insert((0, 0, n.facts)).0 += 1;
                }
            },
            NodeKind::LoopErr => loops_req += 1,
            NodeKind::LoopOptional => {
                if n.yields {
                    opt_yielding += 1;
                    req.entry((n.loc.as_str(), n.path.as_str())).or_insert((0, 0, n.facts)).1 += 1;
                } else {
                    opt_silent += 1;
                }
            },
        }
    }
    let mut seen: BTreeMap<(&str, &str), usize> = BTreeMap::new();
    let mut loops_seen = 0usize;
    for it in obs {
        match it {
            Obs::Ent { loc, path, .. } => *seen.entry((loc.as_str(), path.as_str())).or_insert(0) += 1,
            Obs::Loop { .. } => loops_seen += 1,
            Obs::OtherErr(_) => {},
        }
    }
    let mut optional_as_entry = 0usize;
    let mut found: Vec<Discrepancy> = vec![];
    for it in obs {
        if let Obs::Ent { loc, path, facts } = it {
            let k = (loc.as_str(), path.as_str());
            let got = seen[&k];
            match req.get(&k) {
                None => {
                    // classify why it is not selected
                    let why = match nodes.iter().find(|n| n.loc == *loc && n.path == *path) {
                        Some(n) if n.depth < o.min => "below-min-depth",
                        Some(_) => "rejected-by-filter-per-vfs.entry",
                        None => {
                            if nodes.iter().any(|n| n.loc == *loc) {
                                "reported-path-differs"
                            } else {
                                "outside-the-traversal"
                            }
                        },
                    };
                    found.push(Discrepancy { kind: format!("yields-unselected-entry({},{})", why, facts.kind()), detail: format!("{} is not denoted by the options", it.render()) });
                },
                Some((r, op, _)) => {
                    if got > r + op {
                        found.push(Discrepancy { kind: format!("yields-entry-too-often({})", facts.kind()), detail: format!("{} yielded {} times, expected {}", it.render(), got, r + op) });
                    }
                },
            }
        }
    }
    for (k, (r, op, f)) in &req {
        let got = seen.get(k).copied().unwrap_or(0);
        if got < *r {
            let via = if k.0 != k.1 { "followed-link" } else { f.kind() };
            found.push(Discrepancy {
                kind: format!("misses-selected-entry({})", via),
                detail: format!("{}{} expected {} time(s), yielded {}", k.1, if k.0 != k.1 { format!("(via {})", k.0) } else { String::new() }, r, got),
            });
            continue;
        }
        optional_as_entry += (got - *r).min(*op);
    }
    if !found.is_empty() {
        return pick(found);
    }
    let loops_lo = loops_req + (opt_yielding - optional_as_entry.min(opt_yielding));
    let loops_hi = loops_lo + opt_silent;
    if loops_seen < loops_lo {
        return disc("misses-LinkLooping-error".to_string(), format!("{} LinkLooping item(s), expected at least {}", loops_seen, loops_lo));
    }
    if loops_seen > loops_hi {
        return disc("unexpected-LinkLooping-error".to_string(), format!("{} LinkLooping item(s), expected at most {}", loops_seen, loops_hi));
    }
    // ---- linearisation ------------------------------------------------------------------------
    let full = Rules { name: o.order != Order::None, group: matches!(o.order, Order::DirsFirst | Order::FilesFirst), files_first: o.order == Order::FilesFirst };
    if linear_ok(exp, obs, o, full) {
        return None;
    }
    if full.group && linear_ok(exp, obs, o, Rules { group: false, ..full }) {
        return disc("siblings-not-grouped-by-kind".to_string(), "observed sequence is a legal traversal except for the dirs/files grouping".to_string());
    }
    if full.name && linear_ok(exp, obs, o, Rules { name: false, group: false, files_first: false }) {
        return disc("siblings-not-in-name-order".to_string(), "observed sequence is a legal traversal except for the sibling name order".to_string());
    }
    // structure: tell parent order from contiguity where the assignment is unambiguous
    let unique = req.values().all(|(r, op, _)| r + op <= 1) && loops_req + opt_yielding + opt_silent == 0;
    if unique {
        let pos = |n: &WNode| obs.iter().position(|x| matches!(x, Obs::Ent{loc, path, ..} if *loc == n.loc && *path == n.path));
        for n in &nodes {
            if !n.yields {
                continue;
            }
            let pn = pos(n);
            let mut below = vec![];
            for c in &n.children {
                collect(c, &mut below);
            }
            for d in below {
                if !d.yields {
                    continue;
                }
                let pd = pos(d);
                let bad = if o.contents_first { pn < pd } else { pn > pd };
                if bad {
                    return disc(
                        "parent-contents-order".to_string(),
                        format!("{} must come {} {}", n.path, if o.contents_first { "after" } else { "before" }, d.path),
                    );
                }
            }
        }
        return disc("subtree-not-contiguous".to_string(), "the items of one directory's subtree are interleaved with items from outside it".to_string());
    }
    disc("not-a-legal-linearisation".to_string(), "parent/contents order or subtree contiguity broken (duplicates present, not told apart)".to_string())
}

#[derive(Clone, Copy)]
struct Rules {
    name: bool,
    group: bool,
    files_first: bool,
}

fn linear_ok(exp: &WNode, obs: &[Obs], o: &WalkOpts, r: Rules) -> bool {
    m_node(exp, obs, 0, o, r).contains(&obs.len())
}

fn own(n: &WNode, obs: &[Obs], pos: usize, out: &mut Vec<usize>) {
    let ent_ok = matches!(obs.get(pos), Some(Obs::Ent { loc, path, .. }) if *loc == n.loc && *path == n.path);
    let loop_ok = matches!(obs.get(pos), Some(Obs::Loop { .. }));
    let normal = |out: &mut Vec<usize>| {
        if n.yields {
            if ent_ok {
                out.push(pos + 1);
            }
        } else {
            out.push(pos);
        }
    };
    match n.kind {
        NodeKind::Normal => normal(out),
        NodeKind::LoopErr => {
            if loop_ok {
                out.push(pos + 1);
            }
        },
        NodeKind::LoopOptional => {
            normal(out);
            if loop_ok {
                out.push(pos + 1);
            }
        },
    }
}

fn m_node(n: &WNode, obs: &[Obs], pos: usize, o: &WalkOpts, r: Rules) -> Vec<usize> {
    let mut out = vec![];
    if n.children.is_empty() {
        own(n, obs, pos, &mut out);
        return out;
    }
    if !o.contents_first {
        let mut firsts = vec![];
        own(n, obs, pos, &mut firsts);
        for p in firsts {
            m_children(&n.children, 0, obs, p, o, r, [None, None], 0, &mut out);
        }
    } else {
        let mut mids = vec![];
        m_children(&n.children, 0, obs, pos, o, r, [None, None], 0, &mut mids);
        mids.sort();
        mids.dedup();
        for p in mids {
            own(n, obs, p, &mut out);
        }
    }
    out.sort();
    out.dedup();
    out
}

#[allow(clippy::too_many_arguments)]
fn m_children<'a>(ch: &'a [WNode], used: u32, obs: &[Obs], pos: usize, o: &WalkOpts, r: Rules, last_name: [Option<&'a str>; 2], max_group: usize, out: &mut Vec<usize>) {
    let mut all_optional = true;
    for (i, c) in ch.iter().enumerate() {
        if used & (1 << i) == 0 && c.cnt_min > 0 {
            all_optional = false;
        }
    }
    if all_optional {
        out.push(pos);
    }
    if pos >= obs.len() {
        return;
    }
    for (i, c) in ch.iter().enumerate() {
        if used & (1 << i) != 0 || c.cnt_max == 0 {
            continue;
        }
        let ends = m_node(c, obs, pos, o, r);
        for e in ends {
            if e == pos {
                continue;
            }
            let exempt = c.kind != NodeKind::Normal;
            let mut ln = last_name;
            let mut mg = max_group;
            if !exempt {
                let g = if !r.group {
                    0
                } else if r.files_first {
                    c.facts.is_dir as usize
                } else {
                    (!c.facts.is_dir) as usize
                };
                let name = base_of(&c.path);
                if r.group && g < max_group {
                    continue;
                }
                if r.name {
                    // without the grouping rule names are compared within each kind class only
                    let cls = if r.group {
                        g
                    } else if matches!(o.order, Order::DirsFirst | Order::FilesFirst) {
                        c.facts.is_dir as usize
                    } else {
                        0
                    };
                    if let Some(l) = ln[cls] {
                        if name < l {
                            continue;
                        }
                    }
                    ln[cls] = Some(name);
                }
                mg = mg.max(g);
            }
            m_children(ch, used | (1 << i), obs, e, o, r, ln, mg, out);
        }
    }
}

/// Order-free canonical form of an observation (for cross-cap / cross-backend comparison)
pub fn canonical_multiset(obs: &[Obs]) -> Vec<Obs> {
    let mut v = obs.to_vec();
    v.sort();
    v
}

// -------------------------------------------------------------------------------------------------
#[cfg(test)]
mod tests {
    use super::*;
    use crate::models::tree::Node;

    #[test]
    fn window() {
        assert_eq!(effective_window(2, 1, false), (2, 2));
        assert_eq!(effective_window(2, 1, true), (1, 1));
        assert_eq!(effective_window(1, usize::MAX, false), (1, usize::MAX));
    }

    #[test]
    fn simple_walk() {
        let mut t = Tree::new();
        t.insert("/a", Node::dir());
        t.insert("/a/b", Node::file(b""));
        t.insert("/c", Node::link("/a"));
        let mut facts = BTreeMap::new();
        facts.insert("/".to_string(), Facts { is_dir: true, is_file: false, is_link: false });
        facts.insert("/a".to_string(), Facts { is_dir: true, is_file: false, is_link: false });
        facts.insert("/a/b".to_string(), Facts { is_dir: false, is_file: true, is_link: false });
        facts.insert("/c".to_string(), Facts { is_dir: true, is_file: false, is_link: true });
        let o = WalkOpts { min: 0, max: usize::MAX, filter: Filter::None, follow: true, order: Order::Name, contents_first: false };
        let e = expected(&t, &facts, "/", &o);
        assert_eq!(e.root.cnt_min, 5);
        let f = |p: &str| facts[p];
        let obs = vec![
            Obs::Ent { loc: "/".into(), path: "/".into(), facts: f("/") },
            Obs::Ent { loc: "/a".into(), path: "/a".into(), facts: f("/a") },
            Obs::Ent { loc: "/a/b".into(), path: "/a/b".into(), facts: f("/a/b") },
            Obs::Ent { loc: "/c".into(), path: "/a".into(), facts: f("/c") },
            Obs::Ent { loc: "/a/b".into(), path: "/a/b".into(), facts: f("/a/b") },
        ];
        assert_eq!(validate(&e.root, &obs, &o), None);
        let mut bad = obs.clone();
        bad.swap(1, 2);
        assert!(validate(&e.root, &bad, &o).is_some());
    }
}

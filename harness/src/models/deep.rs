//! Deep chain: one chain of DEEP nested directories with a file at the bottom, deeper than any
//! constant in rivia (the descriptor cap is 50). The enumerated name spaces stop at depth 2-3, so a
//! recursion that silently stops after N levels is invisible there; these fixed cases make every
//! recursive operation prove that it reaches the bottom. Generic over the backend.
use crate::common::par::{panic_message, start_call_watchdog, watched};
use rivia::prelude::*;
use std::panic::{catch_unwind, AssertUnwindSafe};

pub const DEEP: usize = 300;

pub struct DeepFinding {
    pub sig: String,
    pub detail: String,
}

fn f(sig: String, detail: String) -> DeepFinding {
    DeepFinding { sig, detail }
}

/// a call that does not return is reported by the process-wide call watchdog
fn guard() {
    static STARTED: std::sync::Once = std::sync::Once::new();
    STARTED.call_once(|| {
        start_call_watchdog(std::time::Duration::from_secs(60), |call| {
            let sig = "deep chain · hang".to_string();
            let detail = format!("{} on a chain of {} directories did not return within 60 s", call, DEEP);
            if crate::engines::workers::in_worker() {
                let line = crate::common::json::J::obj([
                    ("sig", crate::common::json::J::s(&sig)),
                    ("n", crate::common::json::J::i(1)),
                    ("detail", crate::common::json::J::s(&detail)),
                    ("case", crate::common::json::J::obj([("part", crate::common::json::J::s("hang")), ("where", crate::common::json::J::s(&call))])),
                ]);
                println!("V\t{}", line.to_string());
                println!("DONE");
                std::process::exit(0);
            }
            eprintln!("HANG: {}", detail);
            let c2 = call.clone();
            crate::common::report::vio(&sig, move || detail, move || crate::common::json::J::obj([("part", crate::common::json::J::s("hang")), ("where", crate::common::json::J::s(c2))]));
            std::process::exit(crate::props::hang_exit("", &sig));
        });
    });
}

fn call<T>(what: &str, g: impl FnOnce() -> RvResult<T>) -> Result<T, String> {
    guard();
    match watched(|d| d.push_str(what), || catch_unwind(AssertUnwindSafe(g))) {
        Ok(Ok(x)) => Ok(x),
        Ok(Err(e)) => Err(format!("Err({})", e)),
        Err(p) => Err(format!("PANIC({})", panic_message(&p))),
    }
}

pub fn chain(top: &str) -> (Vec<String>, String) {
    let mut dirs: Vec<String> = vec![top.to_string()];
    for _ in 0..DEEP {
        dirs.push(format!("{}/a", dirs.last().unwrap()));
    }
    let file = format!("{}/f", dirs.last().unwrap());
    (dirs, file)
}

pub fn build<V: VirtualFileSystem>(backend: &str, fs: &V, top: &str) -> Result<(Vec<String>, String), DeepFinding> {
    let (dirs, file) = chain(top);
    let r = call("mkdir_p + write_all (building the chain)", || {
        fs.mkdir_p(dirs.last().unwrap())?;
        fs.write_all(&file, b"bottom")?;
        Ok(())
    });
    match r {
        Ok(()) => Ok((dirs, file)),
        Err(e) => Err(f(format!("{} deep chain · cannot be built", backend), format!("mkdir_p / write_all of a chain of {} directories: {}", DEEP, e))),
    }
}

/// entries() and the listing helpers reach every level, once
pub fn traversal<V: VirtualFileSystem>(backend: &str, fs: &V, top: &str) -> Vec<DeepFinding> {
    let mut out = vec![];
    let (dirs, file) = match build(backend, fs, top) {
        Ok(x) => x,
        Err(e) => return vec![e],
    };
    let mut want: Vec<String> = dirs.clone();
    want.push(file.clone());
    for (name, contents_first) in [("entries()", false), ("entries().contents_first()", true)] {
        let r = call(name, || {
            let mut e = fs.entries(top)?;
            if contents_first {
                e = e.contents_first();
            }
            let mut v = vec![];
            for x in e.into_iter().take(4 * DEEP) {
                v.push(x?.path().to_string_lossy().into_owned());
            }
            Ok(v)
        });
        match r {
            Err(e) => out.push(f(format!("{} {} · deep chain · failed", backend, name), format!("{} over a chain of {} directories: {}", name, DEEP, e))),
            Ok(got) => {
                let mut expect = want.clone();
                if contents_first {
                    expect.reverse();
                }
                if got != expect {
                    let n = got.iter().zip(expect.iter()).take_while(|(a, b)| a == b).count();
                    out.push(f(
                        format!("{} {} · deep chain · a level is missing, repeated or out of order", backend, name),
                        format!("{} over a chain of {} directories with a file at the bottom yields {} items, expected {}; first difference at item {} (observed {:?})", name, DEEP, got.len(), expect.len(), n, got.get(n).map(|x| &x[x.len().saturating_sub(24)..])),
                    ));
                }
            },
        }
    }
    for (name, n) in [("all_paths", DEEP + 1), ("all_dirs", DEEP), ("all_files", 1)] {
        let r = call(name, || match name {
            "all_paths" => fs.all_paths(top),
            "all_dirs" => fs.all_dirs(top),
            _ => fs.all_files(top),
        });
        match r {
            Err(e) => out.push(f(format!("{} {} · deep chain · failed", backend, name), format!("{}({}) with a chain of {} directories below: {}", name, top, DEEP, e))),
            Ok(v) => {
                if v.len() != n {
                    out.push(f(format!("{} {} · deep chain · wrong number of results", backend, name), format!("{}({}) with a chain of {} directories and one file below returns {} paths, expected {}", name, top, DEEP, v.len(), n)));
                }
            },
        }
    }
    out
}

/// copy duplicates the whole chain, move_p relocates it, the source is untouched / gone
pub fn copy_move<V: VirtualFileSystem>(backend: &str, fs: &V, top: &str, dst: &str, dst2: &str) -> Vec<DeepFinding> {
    let mut out = vec![];
    if let Err(e) = build(backend, fs, top) {
        return vec![e];
    }
    let count = |p: &str| -> Result<usize, String> { call("all_paths", || fs.all_paths(p)).map(|v| v.len()) };
    let bottom = |p: &str| -> String { format!("{}/f", chain(p).0.last().unwrap()) };
    for (name, follow) in [("copy", false), ("copy_b.follow", true)] {
        let d = if follow { format!("{}-followed", dst) } else { dst.to_string() };
        let r = call(name, || {
            if follow {
                fs.copy_b(top, &d)?.follow(true).exec()
            } else {
                fs.copy(top, &d)
            }
        });
        match r {
            Err(e) => out.push(f(format!("{} {} · deep chain · failed", backend, name), format!("{}({}, {}) of a chain of {} directories: {}", name, top, d, DEEP, e))),
            Ok(()) => {
                let (a, b) = (count(top), count(&d));
                let data = call("read_all", || fs.read_all(bottom(&d)));
                if a != Ok(DEEP + 1) || b != Ok(DEEP + 1) || data.as_deref() != Ok("bottom") {
                    out.push(f(
                        format!("{} {} · deep chain · the copy is not complete", backend, name),
                        format!("{}({}, {}) of a chain of {} directories with a file at the bottom: source now has {:?} paths, copy has {:?} (expected {} each), bottom file of the copy reads {:?}", name, top, d, DEEP, a, b, DEEP + 1, data),
                    ));
                }
            },
        }
    }
    match call("move_p", || fs.move_p(dst, dst2)) {
        Err(e) => out.push(f(format!("{} move_p · deep chain · failed", backend), format!("move_p({}, {}) of a chain of {} directories: {}", dst, dst2, DEEP, e))),
        Ok(_) => {
            let b = count(dst2);
            let data = call("read_all", || fs.read_all(bottom(dst2)));
            let gone = !fs.exists(dst) && !fs.exists(bottom(dst));
            if b != Ok(DEEP + 1) || data.as_deref() != Ok("bottom") || !gone {
                out.push(f(
                    format!("{} move_p · deep chain · the move is not complete", backend),
                    format!("move_p({}, {}) of a chain of {} directories: destination has {:?} paths (expected {}), bottom file reads {:?}, source gone: {}", dst, dst2, DEEP, b, DEEP + 1, data, gone),
                ));
            }
        },
    }
    out
}

/// remove_all takes the whole chain away
pub fn removal<V: VirtualFileSystem>(backend: &str, fs: &V, top: &str) -> Vec<DeepFinding> {
    let mut out = vec![];
    let (dirs, file) = match build(backend, fs, top) {
        Ok(x) => x,
        Err(e) => return vec![e],
    };
    match call("remove_all", || fs.remove_all(top)) {
        Err(e) => out.push(f(format!("{} remove_all · deep chain · failed", backend), format!("remove_all({}) of a chain of {} directories: {}", top, DEEP, e))),
        Ok(()) => {
            let left: Vec<&String> = dirs.iter().chain(std::iter::once(&file)).filter(|p| fs.exists(p)).collect();
            if !left.is_empty() {
                out.push(f(format!("{} remove_all · deep chain · entries left behind", backend), format!("remove_all({}) of a chain of {} directories leaves {} of its {} entries in place (first: level {})", top, DEEP, left.len(), DEEP + 2, left[0].matches("/a").count())));
            }
        },
    }
    out
}

/// hand the findings of one suite to the collector of the main process
pub fn report_main(suite: &str, found: Vec<DeepFinding>) {
    for x in found {
        let suite = suite.to_string();
        crate::common::report::vio(&x.sig, move || x.detail, move || crate::common::json::J::obj([("part", crate::common::json::J::s("deep-chain")), ("suite", crate::common::json::J::s(suite))]));
    }
}

/// same from a worker process
pub fn report_worker(w: &mut crate::engines::workers::WorkerCtx, suite: &str, found: Vec<DeepFinding>) {
    for x in found {
        let suite = suite.to_string();
        w.vio(&x.sig, move || x.detail, move || crate::common::json::J::obj([("part", crate::common::json::J::s("deep-chain")), ("suite", crate::common::json::J::s(suite))]));
    }
}

/// replay of a recorded deep-chain case: run the suite again on Memfs and (as root) on Stdfs
pub fn replay(suite: &str) -> Vec<DeepFinding> {
    let mut found = vec![];
    let run = |backend: &str, top: String, found: &mut Vec<DeepFinding>| {
        let (d1, d2) = (format!("{}-copy", top), format!("{}-moved", top));
        if backend == "memfs" {
            let fs = Memfs::new();
            found.extend(match suite {
                "traversal" => traversal(backend, &fs, &top),
                "copy_move" => copy_move(backend, &fs, &top, &d1, &d2),
                _ => removal(backend, &fs, &top),
            });
        } else {
            let fs = Stdfs::new();
            found.extend(match suite {
                "traversal" => traversal(backend, &fs, &top),
                "copy_move" => copy_move(backend, &fs, &top, &d1, &d2),
                _ => removal(backend, &fs, &top),
            });
        }
    };
    run("memfs", "/e".to_string(), &mut found);
    if unsafe { libc::geteuid() } == 0 {
        let sb = crate::engines::sandbox::Sandbox::new("deep.replay");
        run("stdfs", format!("{}/e", sb.root), &mut found);
    }
    found
}

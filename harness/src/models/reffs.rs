//! RefFs: the plain reference tree filesystem written from the VirtualFileSystem trait docs and the
//! property statements (DESIGN.md appendix A). It predicts, for one call from one abstract state,
//! the result and the resulting tree - or declares the case unspecified where the docs are silent.
use super::ops::{CopyMode, Op, Outcome};
use super::ref_abs::{ref_abs, AbsR};
use super::tree::*;
use crate::common::json::bytes_repr;
use std::io::BufRead;

#[derive(Clone, Debug, PartialEq, Eq)]
pub struct RState {
    pub tree: Tree,
    pub cwd: String,
}

#[derive(Clone, Debug, PartialEq, Eq)]
pub enum Val {
    Exact(String),
    Any,
}

#[derive(Clone, Debug, Default)]
pub struct Wild {
    /// paths whose permission bits the docs do not define (e.g. directories created on the way)
    pub mode: Vec<String>,
    /// paths whose owner the docs do not define (e.g. copied entries)
    pub owner: Vec<String>,
}

#[derive(Clone, Debug)]
pub enum Pred {
    /// must succeed with this value and end in this state
    Must { val: Val, post: RState, wild: Wild },
    /// must fail (with this error kind where the docs name one); state unchanged
    MustErr { kind: Option<&'static str> },
    /// docs silent: Ok => post state as given (None = unconstrained); Err => state unchanged
    Either { ok_val: Val, ok_post: Option<RState>, wild: Wild },
    /// outside the compared domain (reason)
    Skip(&'static str),
}

fn must(val: Val, tree: Tree, cwd: &str) -> Pred {
    Pred::Must { val, post: RState { tree, cwd: cwd.to_string() }, wild: Wild::default() }
}
fn unit() -> Val {
    Val::Exact("()".into())
}
fn either_unchanged(st: &RState, val: Val) -> Pred {
    Pred::Either { ok_val: val, ok_post: Some(st.clone()), wild: Wild::default() }
}

enum Res {
    P(String),
    Stop(Pred),
}

fn resolve(st: &RState, arg: &str) -> Res {
    match ref_abs(&st.cwd, arg) {
        AbsR::Ok(p) => {
            if st.tree.through_link(&p) {
                Res::Stop(Pred::Skip("argument passes through a link"))
            } else {
                Res::P(p)
            }
        },
        AbsR::Err(_) => Res::Stop(Pred::MustErr { kind: None }),
        AbsR::Climbs(_) => Res::Stop(Pred::Skip("relative argument climbs above the root")),
        AbsR::Unspecified => Res::Stop(Pred::Skip("expansion outside the reference")),
    }
}

macro_rules! rs {
    ($st:expr, $arg:expr) => {
        match resolve($st, $arg) {
            Res::P(p) => p,
            Res::Stop(x) => return x,
        }
    };
}

/// errors shared by every "create or open a file at p" call; None = proceed
fn file_target_errors(st: &RState, p: &str) -> Option<Pred> {
    if p == "/" {
        return Some(Pred::MustErr { kind: Some("IsNotFile") });
    }
    let par = parent_of(p);
    match st.tree.kind(&par) {
        "missing" => return Some(Pred::MustErr { kind: Some("DoesNotExist") }),
        "dir" => {},
        _ => return Some(Pred::MustErr { kind: Some("IsNotDir") }),
    }
    match st.tree.kind(p) {
        "dir" => Some(Pred::MustErr { kind: Some("IsNotFile") }),
        // "IsNotFile when the given path exists but is not a file" and is_file() excludes links (both documented)
        "link" => Some(Pred::MustErr { kind: Some("IsNotFile") }),
        _ => None,
    }
}

fn set_content(st: &RState, p: &str, data: Vec<u8>) -> Tree {
    let mut t = st.tree.clone();
    match t.nodes.get_mut(p) {
        Some(n) => n.kind = Kind::File(data),
        None => t.insert(p, Node::file(&data)),
    }
    t
}

fn old_content(st: &RState, p: &str) -> Vec<u8> {
    match st.tree.get(p) {
        Some(Node { kind: Kind::File(d), .. }) => d.clone(),
        _ => vec![],
    }
}

fn lines_payload(lines: &[String]) -> Vec<u8> {
    let j = lines.join("\n");
    if j.is_empty() {
        vec![]
    } else {
        (j + "\n").into_bytes()
    }
}

pub fn step(st: &RState, op: &Op) -> Pred {
    use Op::*;
    let cwd = st.cwd.as_str();
    match op {
        Mkfile(a) | MkfileM(a, _) => {
            let p = rs!(st, a);
            if let MkfileM(_, 0) = op {
                return Pred::Skip("mode 0 (octal form treats 0 as unset; C11)");
            }
            if let Some(e) = file_target_errors(st, &p) {
                return e;
            }
            let mut t = st.tree.clone();
            if !t.exists(&p) {
                t.insert(&p, Node::file(b""));
            }
            if let MkfileM(_, m) = op {
                t.nodes.get_mut(&p).unwrap().mode = m & 0o7777;
            }
            must(Val::Exact(p), t, cwd)
        },
        MkdirP(a) | MkdirM(a, _) => {
            let p = rs!(st, a);
            let mode = match op {
                MkdirM(_, m) => m & 0o7777,
                _ => DEF_DIR,
            };
            // walk the components from the root
            let mut t = st.tree.clone();
            let mut cur = "/".to_string();
            for comp in p.split('/').filter(|x| !x.is_empty()) {
                cur = join(&cur, comp);
                match st.tree.kind(&cur) {
                    "dir" => {},
                    "missing" => t.insert(&cur, Node::dir().with_mode(mode)),
                    "link" => {
                        // only reachable for cur == p (a link as intermediate was skipped above)
                        return either_unchanged(st, Val::Exact(p.clone()));
                    },
                    _ => {
                        return Pred::MustErr { kind: if cur == p { Some("IsNotDir") } else { None } };
                    },
                }
            }
            must(Val::Exact(p), t, cwd)
        },
        WriteAll(a, d) => {
            let p = rs!(st, a);
            if let Some(e) = file_target_errors(st, &p) {
                return e;
            }
            must(unit(), set_content(st, &p, d.clone()), cwd)
        },
        AppendAll(a, d) => {
            let p = rs!(st, a);
            if let Some(e) = file_target_errors(st, &p) {
                return e;
            }
            let mut c = old_content(st, &p);
            c.extend_from_slice(d);
            must(unit(), set_content(st, &p, c), cwd)
        },
        WriteHandle(a, chunks, _) => {
            let p = rs!(st, a);
            if let Some(e) = file_target_errors(st, &p) {
                return e;
            }
            must(unit(), set_content(st, &p, chunks.concat()), cwd)
        },
        AppendHandle(a, chunks, _) => {
            let p = rs!(st, a);
            if let Some(e) = file_target_errors(st, &p) {
                return e;
            }
            let mut c = old_content(st, &p);
            c.extend_from_slice(&chunks.concat());
            must(unit(), set_content(st, &p, c), cwd)
        },
        WriteLines(a, ls) | AppendLines(a, ls) => {
            let p = rs!(st, a);
            if ls.is_empty() || ls.iter().any(|l| l.is_empty() || l.contains('\n') || l.contains('\r')) {
                return Pred::Skip("line helper outside the stated domain (empty list / empty or multi-line item)");
            }
            if let Some(e) = file_target_errors(st, &p) {
                return e;
            }
            let mut c = if matches!(op, AppendLines(..)) { old_content(st, &p) } else { vec![] };
            c.extend_from_slice(&lines_payload(ls));
            must(unit(), set_content(st, &p, c), cwd)
        },
        AppendLine(a, l) => {
            let p = rs!(st, a);
            if l.is_empty() || l.contains('\n') || l.contains('\r') {
                return Pred::Skip("line helper outside the stated domain");
            }
            if let Some(e) = file_target_errors(st, &p) {
                return e;
            }
            let mut c = old_content(st, &p);
            c.extend_from_slice(l.as_bytes());
            c.push(b'\n');
            must(unit(), set_content(st, &p, c), cwd)
        },
        Remove(a) => {
            let p = rs!(st, a);
            if p == "/" {
                return either_unchanged(st, Val::Any);
            }
            match st.tree.kind(&p) {
                "missing" => either_unchanged(st, unit()),
                "dir" if !st.tree.children(&p).is_empty() => Pred::MustErr { kind: None },
                _ => {
                    let mut t = st.tree.clone();
                    t.nodes.remove(&p);
                    must(unit(), t, cwd)
                },
            }
        },
        RemoveAll(a) => {
            let p = rs!(st, a);
            if p == "/" {
                return Pred::Skip("remove_all of the root is not specified");
            }
            match st.tree.kind(&p) {
                "missing" => either_unchanged(st, unit()),
                _ => {
                    let mut t = st.tree.clone();
                    t.remove_subtree(&p);
                    must(unit(), t, cwd)
                },
            }
        },
        MoveP(a, b) => {
            let s = rs!(st, a);
            let d = rs!(st, b);
            if st.tree.kind(&s) == "missing" {
                return Pred::MustErr { kind: Some("DoesNotExist") };
            }
            if s == "/" {
                return Pred::Skip("moving the root");
            }
            if st.tree.kind(&d) == "link" {
                return Pred::Skip("destination is a link");
            }
            let e = if st.tree.is_dir(&d) { join(&d, base_of(&s)) } else { d.clone() };
            if e == s {
                return either_unchanged(st, unit());
            }
            if is_under(&e, &s) {
                return Pred::MustErr { kind: None };
            }
            if !st.tree.is_dir(&parent_of(&e)) {
                return Pred::MustErr { kind: None };
            }
            let mut t = st.tree.clone();
            let moved: Vec<(String, Node)> = st.tree.subtree(&s).into_iter().map(|k| (k.clone(), st.tree.nodes[&k].clone())).collect();
            let ek = st.tree.kind(&e);
            let sk = st.tree.kind(&s);
            t.remove_subtree(&e);
            t.remove_subtree(&s);
            for (k, n) in moved {
                t.insert(&format!("{}{}", e, &k[s.len()..]), n);
            }
            let post = RState { tree: t, cwd: cwd.to_string() };
            if ek == "missing" || (ek == "file" && (sk == "file" || sk == "link")) {
                Pred::Must { val: unit(), post, wild: Wild::default() }
            } else {
                Pred::Either { ok_val: unit(), ok_post: Some(post), wild: Wild::default() }
            }
        },
        Copy(a, b) => copy_step(st, a, b, &CopyMode::None, false),
        CopyB(a, b, m, follow) => copy_step(st, a, b, m, *follow),
        Symlink(a, b) => {
            let l = rs!(st, a);
            if b.is_empty() {
                return Pred::MustErr { kind: None };
            }
            let t_abs = if b.starts_with('/') { ref_abs(cwd, b) } else { ref_abs("/", &format!("{}/{}", parent_of(&l), b)) };
            let tg = match t_abs {
                AbsR::Ok(x) => x,
                AbsR::Err(_) => return Pred::MustErr { kind: None },
                _ => return Pred::Skip("target spelling outside the reference"),
            };
            if l == "/" {
                return Pred::Skip("link at the root");
            }
            match st.tree.kind(&parent_of(&l)) {
                "dir" => {},
                _ => return Pred::MustErr { kind: None },
            }
            let mut t = st.tree.clone();
            t.remove_subtree(&l);
            let mut n = Node::link(&tg);
            n.lk = if st.tree.through_link(&tg) || st.tree.kind(&tg) == "link" { 0 } else { st.tree.resolved_kind(&tg) };
            t.insert(&l, n);
            let post = RState { tree: t, cwd: cwd.to_string() };
            if st.tree.kind(&l) == "missing" {
                Pred::Must { val: Val::Exact(l), post, wild: Wild::default() }
            } else {
                Pred::Either { ok_val: Val::Exact(l), ok_post: Some(post), wild: Wild::default() }
            }
        },
        SetCwd(a) => {
            let p = rs!(st, a);
            match st.tree.kind(&p) {
                "missing" => Pred::MustErr { kind: Some("DoesNotExist") },
                "dir" => must(Val::Exact(p.clone()), st.tree.clone(), &p),
                _ => Pred::Either { ok_val: Val::Exact(p.clone()), ok_post: Some(RState { tree: st.tree.clone(), cwd: p }), wild: Wild::default() },
            }
        },
        Chmod(a, m) => {
            let p = rs!(st, a);
            if *m == 0 || *m > 0o7777 {
                return Pred::Skip("mode outside 1..=0o7777 (C11)");
            }
            if st.tree.kind(&p) == "missing" {
                return Pred::MustErr { kind: Some("DoesNotExist") };
            }
            let mut t = st.tree.clone();
            for k in st.tree.subtree(&p) {
                let n = t.nodes.get_mut(&k).unwrap();
                if !n.is_link() {
                    n.mode = *m;
                }
            }
            must(unit(), t, cwd)
        },
        Chown(a, u, g) => {
            let p = rs!(st, a);
            if st.tree.kind(&p) == "missing" {
                return Pred::MustErr { kind: None };
            }
            if p == "/" {
                return Pred::Skip("owner of the root is not part of the observed tree");
            }
            let mut t = st.tree.clone();
            for k in st.tree.subtree(&p) {
                let n = t.nodes.get_mut(&k).unwrap();
                n.uid = *u;
                n.gid = *g;
            }
            must(unit(), t, cwd)
        },
        ChmodB(..) | ChownB(..) => Pred::Skip("builder forms are decided by C11"),
        _ => Pred::Skip("query"),
    }
}

fn copy_step(st: &RState, a: &str, b: &str, mode: &CopyMode, follow: bool) -> Pred {
    let s = match resolve(st, a) {
        Res::P(p) => p,
        Res::Stop(x) => return x,
    };
    let d = match resolve(st, b) {
        Res::P(p) => p,
        Res::Stop(x) => return x,
    };
    if s == d {
        // copying something onto itself changes nothing; the docs do not say whether a missing
        // source is still reported in this case
        return either_unchanged(st, unit());
    }
    if st.tree.kind(&s) == "missing" {
        return Pred::MustErr { kind: Some("DoesNotExist") };
    }
    if follow {
        return Pred::Skip("copy with follow (weaker oracle in C09)");
    }
    if s == "/" {
        return Pred::Skip("copying the root");
    }
    if st.tree.kind(&d) == "link" {
        return Pred::Skip("destination is a link");
    }
    let e = if st.tree.is_dir(&d) { join(&d, base_of(&s)) } else { d.clone() };
    if e == s {
        return either_unchanged(st, unit());
    }
    if is_under(&e, &s) || is_under(&s, &e) {
        return Pred::Skip("source and destination nested in each other (C09)");
    }
    // ancestors of e: existing ones must be directories; missing ones are created
    let mut wild = Wild::default();
    let mut t = st.tree.clone();
    let mut cur = "/".to_string();
    let epar = parent_of(&e);
    for comp in epar.split('/').filter(|x| !x.is_empty()) {
        cur = join(&cur, comp);
        match st.tree.kind(&cur) {
            "dir" => {},
            "missing" => {
                t.insert(&cur, Node::dir());
                wild.mode.push(cur.clone());
                wild.owner.push(cur.clone());
            },
            "link" => return Pred::Skip("destination passes through a link"),
            _ => return Pred::MustErr { kind: None },
        }
    }
    let (dmode, fmode) = match mode {
        CopyMode::None => (None, None),
        CopyMode::All(m) => (Some(*m), Some(*m)),
        CopyMode::Dirs(m) => (Some(*m), None),
        CopyMode::Files(m) => (None, Some(*m)),
        CopyMode::DirsThenAll(_, m) | CopyMode::FilesThenAll(_, m) => (Some(*m), Some(*m)),
    };
    for k in st.tree.subtree(&s) {
        let src = &st.tree.nodes[&k];
        let q = format!("{}{}", e, &k[s.len()..]);
        let existing = st.tree.kind(&q);
        match (&src.kind, existing) {
            (_, "missing") => {
                let mut n = src.clone();
                match &src.kind {
                    Kind::Dir => {
                        if let Some(m) = dmode {
                            n.mode = m & 0o7777;
                        }
                    },
                    Kind::File(_) => {
                        if let Some(m) = fmode {
                            n.mode = m & 0o7777;
                        }
                    },
                    Kind::Link(_) => n.lk = 0,
                }
                t.insert(&q, n);
                wild.owner.push(q);
            },
            (Kind::Dir, "dir") => {},
            (Kind::File(data), "file") => {
                // content replaced; the docs leave the mode of a pre-existing destination file open
                t.nodes.get_mut(&q).unwrap().kind = Kind::File(data.clone());
                wild.mode.push(q);
            },
            _ => return Pred::Skip("copy collides with an existing entry of another kind / an existing link (C09)"),
        }
    }
    Pred::Must { val: unit(), post: RState { tree: t, cwd: st.cwd.clone() }, wild }
}

// ---------------------------------------------------------------------------------------------
// Queries
// ---------------------------------------------------------------------------------------------
#[derive(Clone, Debug, PartialEq, Eq)]
pub enum QPred {
    /// a relative path r such that clean(dir/r) == target
    RelTo(String, String),
    /// rendered entry with the `rel=` field replaced by the law above: (prefix, dir, target, suffix)
    EntryRel(String, String, String, String),
    Val(String),
    Err(Option<&'static str>),
    Any,
}

fn full_mode(n: &Node) -> u32 {
    match n.kind {
        Kind::Dir => 0o40000 | n.mode,
        Kind::File(_) => 0o100000 | n.mode,
        Kind::Link(_) => 0o120000 | n.mode,
    }
}

/// kind under which the dirs/files helpers list an entry: they agree with is_dir / is_file, which
/// exclude links (3 = listed by paths/all_paths only)
fn listed_kind(n: &Node) -> u8 {
    match n.kind {
        Kind::Dir => 2,
        Kind::File(_) => 1,
        Kind::Link(_) => 3,
    }
}

fn listing(st: &RState, p: &str, recursive: bool, want: u8) -> QPred {
    match st.tree.kind(p) {
        "dir" => {},
        "link" => return QPred::Any,
        _ => return QPred::Err(None),
    }
    let mut out = vec![];
    fn rec(t: &Tree, p: &str, recursive: bool, want: u8, out: &mut Vec<String>, unknown: &mut bool) {
        for c in t.children(p) {
            let n = &t.nodes[&c];
            let k = listed_kind(n);
            if k == 0 && want != 0 {
                *unknown = true;
            }
            if want == 0 || k == want {
                out.push(c.clone());
            }
            if recursive && n.is_dir() {
                rec(t, &c, recursive, want, out, unknown);
            }
        }
    }
    let mut unknown = false;
    rec(&st.tree, p, recursive, want, &mut out, &mut unknown);
    if unknown {
        return QPred::Any;
    }
    QPred::Val(out.join(","))
}

pub fn query(st: &RState, op: &Op) -> QPred {
    use Op::*;
    let (arg, _) = op.paths();
    let p = match arg {
        None => String::new(),
        Some(a) => match ref_abs(&st.cwd, a) {
            AbsR::Ok(p) => {
                if st.tree.through_link(&p) && !matches!(op, Abs(_)) {
                    return QPred::Any;
                }
                p
            },
            AbsR::Err(_) => {
                return match op {
                    Exists(_) | IsDir(_) | IsFile(_) | IsSymlink(_) | IsSymlinkDir(_) | IsSymlinkFile(_) | IsExec(_) | IsReadonly(_) => QPred::Val("false".into()),
                    _ => QPred::Err(None),
                }
            },
            AbsR::Climbs(c) => {
                return match op {
                    Abs(_) => QPred::Any,
                    _ => {
                        let _ = c;
                        QPred::Any
                    },
                }
            },
            AbsR::Unspecified => return QPred::Any,
        },
    };
    let node = st.tree.get(&p);
    let is_root = p == "/";
    let b = |x: bool| QPred::Val(x.to_string());
    match op {
        Abs(_) => QPred::Val(p),
        Cwd => QPred::Val(st.cwd.clone()),
        Root => QPred::Val("/".into()),
        Exists(_) => b(is_root || node.is_some()),
        IsDir(_) => b(is_root || node.map(|n| n.is_dir()).unwrap_or(false)),
        IsFile(_) => b(node.map(|n| n.is_file()).unwrap_or(false)),
        IsSymlink(_) => b(node.map(|n| n.is_link()).unwrap_or(false)),
        IsSymlinkDir(_) | IsSymlinkFile(_) => match node {
            Some(n) if n.is_link() => {
                if n.lk == 0 {
                    QPred::Any
                } else {
                    b((n.lk == 2) == matches!(op, IsSymlinkDir(_)))
                }
            },
            _ => b(false),
        },
        IsExec(_) => match node {
            Some(n) => b(n.mode & 0o111 != 0),
            None if is_root => QPred::Any,
            None => b(false),
        },
        IsReadonly(_) => match node {
            Some(n) => b(n.mode & 0o222 == 0),
            None if is_root => QPred::Any,
            None => b(false),
        },
        Mode(_) => match node {
            Some(n) => QPred::Val(format!("{:o}", full_mode(n))),
            None if is_root => QPred::Any,
            None => QPred::Err(Some("DoesNotExist")),
        },
        Uid(_) | Gid(_) | Owner(_) => match node {
            Some(n) => QPred::Val(match op {
                Uid(_) => n.uid.to_string(),
                Gid(_) => n.gid.to_string(),
                _ => format!("{}:{}", n.uid, n.gid),
            }),
            None if is_root => QPred::Any,
            None => QPred::Err(None),
        },
        ReadAll(_) | Read(_) | ReadLines(_) => match node {
            None if is_root => QPred::Err(Some("IsNotFile")),
            None => QPred::Err(Some("DoesNotExist")),
            Some(n) => match &n.kind {
                Kind::Dir => QPred::Err(Some("IsNotFile")),
                Kind::Link(_) => QPred::Err(None),
                Kind::File(d) => match op {
                    Read(_) => QPred::Val(bytes_repr(d)),
                    ReadAll(_) => match std::str::from_utf8(d) {
                        Ok(s) => QPred::Val(s.to_string()),
                        Err(_) => QPred::Err(None),
                    },
                    _ => {
                        let mut lines = vec![];
                        for l in std::io::BufReader::new(&d[..]).lines() {
                            match l {
                                Ok(x) => lines.push(x),
                                Err(_) => return QPred::Err(None),
                            }
                        }
                        QPred::Val(format!("{:?}", lines))
                    },
                },
            },
        },
        Readlink(_) | ReadlinkAbs(_) => match node {
            Some(Node { kind: Kind::Link(t), .. }) => {
                if matches!(op, ReadlinkAbs(_)) {
                    QPred::Val(t.clone())
                } else {
                    QPred::RelTo(parent_of(&p), t.clone())
                }
            },
            _ => QPred::Err(None),
        },
        Paths(_) => listing(st, &p, false, 0),
        Dirs(_) => listing(st, &p, false, 2),
        Files(_) => listing(st, &p, false, 1),
        AllPaths(_) => listing(st, &p, true, 0),
        AllDirs(_) => listing(st, &p, true, 2),
        AllFiles(_) => listing(st, &p, true, 1),
        Entry(_) => match node {
            None if is_root => QPred::Any,
            None => QPred::Err(Some("DoesNotExist")),
            Some(n) => {
                let (alt, dir, file, link) = match &n.kind {
                    Kind::Dir => (String::new(), true, false, false),
                    Kind::File(_) => (String::new(), false, true, false),
                    Kind::Link(t) => {
                        if n.lk == 0 {
                            return QPred::Any;
                        }
                        (t.clone(), n.lk == 2, n.lk == 1, true)
                    },
                };
                let mode = full_mode(n);
                let prefix = format!("path={} alt={} rel=", p, alt);
                let suffix = format!(
                    " dir={} file={} link={} sdir={} sfile={} mode={:o} exec={} ro={} following=false name={:?}",
                    dir,
                    file,
                    link,
                    link && dir,
                    link && file,
                    mode,
                    mode & 0o111 != 0,
                    mode & 0o222 == 0,
                    Some(base_of(&p).to_string())
                );
                if link {
                    QPred::EntryRel(prefix, parent_of(&p), alt, suffix)
                } else {
                    QPred::Val(format!("{}{}", prefix, suffix))
                }
            },
        },
        _ => QPred::Any,
    }
}

// ---------------------------------------------------------------------------------------------
// Comparison
// ---------------------------------------------------------------------------------------------
fn states_equal(a: &RState, b: &RState, wild: &Wild) -> Option<String> {
    if a.cwd != b.cwd {
        return Some(format!("cwd: expected {} observed {}", a.cwd, b.cwd));
    }
    let ka: Vec<&String> = a.tree.nodes.keys().collect();
    let kb: Vec<&String> = b.tree.nodes.keys().collect();
    if ka != kb {
        return Some(format!("names: expected {:?} observed {:?}", ka, kb));
    }
    for (k, x) in &a.tree.nodes {
        let y = &b.tree.nodes[k];
        if x.kind != y.kind {
            return Some(format!("{}: expected {:?} observed {:?}", k, x.kind, y.kind));
        }
        if x.mode != y.mode && !wild.mode.contains(k) {
            return Some(format!("{}: mode expected {:o} observed {:o}", k, x.mode, y.mode));
        }
        if (x.uid != y.uid || x.gid != y.gid) && !wild.owner.contains(k) {
            return Some(format!("{}: owner expected {}:{} observed {}:{}", k, x.uid, x.gid, y.uid, y.gid));
        }
        if x.lk != y.lk && x.lk != 0 && y.lk != 0 {
            return Some(format!("{}: link reports target kind {} expected {}", k, y.lk, x.lk));
        }
    }
    None
}

fn diff_class(d: &str) -> &'static str {
    if d.starts_with("cwd") {
        "cwd"
    } else if d.starts_with("names") {
        "names"
    } else if d.contains(": mode ") {
        "mode"
    } else if d.contains(": owner ") {
        "owner"
    } else if d.contains("link reports") {
        "link-kind"
    } else {
        "content-or-kind"
    }
}

/// Compare an observed transition with the prediction. `post` = alpha(dump') or the reason it is
/// undefined. Returns (discrepancy class for the signature, human detail).
pub fn compare(pred: &Pred, out: &Outcome, pre: &RState, post: &Result<RState, String>) -> Option<(String, String)> {
    if out.panicked() {
        return Some(("panic".into(), format!("the call panicked: {}", out.msg)));
    }
    let post = match post {
        Ok(p) => p,
        // alpha undefined: the indexes of the real state disagree with each other, so no reference tree
        // can equal it (C03 reports the same state under its own invariants)
        Err(e) => {
            if let Pred::Skip(_) = pred {
                return None;
            }
            return Some(("tree:malformed".into(), format!("the resulting state is not a well-formed tree ({}), so it equals no reference tree", e)));
        },
    };
    let no_wild = Wild::default();
    match pred {
        Pred::Skip(_) => None,
        Pred::Must { val, post: want, wild } => {
            if !out.ok {
                return Some(("result:err-expected-ok".into(), format!("expected success, observed {}", out.brief())));
            }
            if let Val::Exact(v) = val {
                if *v != out.val {
                    return Some(("value".into(), format!("expected value {:?}, observed {:?}", v, out.val)));
                }
            }
            states_equal(want, post, wild).map(|d| (format!("tree:{}", diff_class(&d)), format!("resulting tree differs: {}", d)))
        },
        Pred::MustErr { kind } => {
            if out.ok {
                return Some(("result:ok-expected-err".into(), format!("expected failure{}, observed {}", kind.map(|k| format!(" ({})", k)).unwrap_or_default(), out.brief())));
            }
            if let Some(k) = kind {
                if !out.err.contains(k) {
                    return Some((format!("errkind:{}", k), format!("expected error kind {}, observed {}", k, out.brief())));
                }
            }
            states_equal(pre, post, &no_wild).map(|d| (format!("failed-call-changed-tree:{}", diff_class(&d)), format!("the call failed ({}) but the tree changed: {}", out.brief(), d)))
        },
        Pred::Either { ok_val, ok_post, wild } => {
            if out.ok {
                if let Val::Exact(v) = ok_val {
                    if *v != out.val {
                        return Some(("value".into(), format!("expected value {:?}, observed {:?}", v, out.val)));
                    }
                }
                match ok_post {
                    Some(want) => states_equal(want, post, wild).map(|d| (format!("tree:{}", diff_class(&d)), format!("the call succeeded but the resulting tree differs: {}", d))),
                    None => None,
                }
            } else {
                states_equal(pre, post, &no_wild).map(|d| (format!("failed-call-changed-tree:{}", diff_class(&d)), format!("the call failed ({}) but the tree changed: {}", out.brief(), d)))
            }
        },
    }
}

pub fn compare_query(pred: &QPred, out: &Outcome) -> Option<(String, String)> {
    if out.panicked() {
        return Some(("panic".into(), format!("the call panicked: {}", out.msg)));
    }
    let rel_ok = |dir: &str, target: &str, r: &str| -> bool {
        !r.starts_with('/') && !r.is_empty() && super::go_clean::go_clean(&format!("{}/{}", dir, r)) == target
    };
    match pred {
        QPred::Any => None,
        QPred::RelTo(dir, target) => {
            if !out.ok {
                Some(("result:err-expected-ok".into(), format!("expected a relative path from {} to {}, observed {}", dir, target, out.brief())))
            } else if !rel_ok(dir, target, &out.val) {
                Some(("value:rel".into(), format!("expected a relative path r with clean({}/r) == {}, observed {:?}", dir, target, out.val)))
            } else {
                None
            }
        },
        QPred::EntryRel(prefix, dir, target, suffix) => {
            if !out.ok {
                return Some(("result:err-expected-ok".into(), format!("expected Ok({}<rel>{}), observed {}", prefix, suffix, out.brief())));
            }
            if !out.val.starts_with(prefix.as_str()) || !out.val.ends_with(suffix.as_str()) || out.val.len() < prefix.len() + suffix.len() {
                return Some(("value".into(), format!("expected {}<rel>{}, observed {:?}", prefix, suffix, out.val)));
            }
            let r = &out.val[prefix.len()..out.val.len() - suffix.len()];
            if !rel_ok(dir, target, r) {
                Some(("value:rel".into(), format!("entry.rel expected a relative path r with clean({}/r) == {}, observed {:?}", dir, target, r)))
            } else {
                None
            }
        },
        QPred::Val(v) => {
            if !out.ok {
                Some(("result:err-expected-ok".into(), format!("expected Ok({}), observed {}", v, out.brief())))
            } else if out.val != *v {
                Some(("value".into(), format!("expected {:?}, observed {:?}", v, out.val)))
            } else {
                None
            }
        },
        QPred::Err(kind) => {
            if out.ok {
                Some(("result:ok-expected-err".into(), format!("expected failure, observed {}", out.brief())))
            } else if let Some(k) = kind {
                if !out.err.contains(k) {
                    Some((format!("errkind:{}", k), format!("expected error kind {}, observed {}", k, out.brief())))
                } else {
                    None
                }
            } else {
                None
            }
        },
    }
}

/// abstract kind of the path argument(s) in the pre-state, for signatures
pub fn arg_class(st: &RState, op: &Op) -> String {
    let cls = |a: &str| -> String {
        match ref_abs(&st.cwd, a) {
            AbsR::Ok(p) => {
                if st.tree.through_link(&p) {
                    "through-link".into()
                } else {
                    st.tree.kind_detail(&p)
                }
            },
            AbsR::Err(k) => format!("abs-err-{}", k),
            AbsR::Climbs(_) => "climbs".into(),
            AbsR::Unspecified => "unspec".into(),
        }
    };
    match op.paths() {
        (Some(a), Some(b)) => {
            let rel = match (ref_abs(&st.cwd, a), ref_abs(&st.cwd, b)) {
                (AbsR::Ok(x), AbsR::Ok(y)) => {
                    if x == y {
                        " same"
                    } else if is_under(&y, &x) {
                        " dst-under-src"
                    } else if is_under(&x, &y) {
                        " src-under-dst"
                    } else {
                        ""
                    }
                },
                _ => "",
            };
            format!("{},{}{}", cls(a), cls(b), rel)
        },
        (Some(a), None) => cls(a),
        _ => String::new(),
    }
}

//! String-level reference for path resolution (`abs`): protocol trimming, lexical join onto the cwd,
//! Go-style cleaning. Home / variable expansion is delegated to a caller supplied expander.
use super::go_clean::go_clean;

#[derive(Clone, Debug, PartialEq, Eq)]
pub enum AbsR {
    Ok(String),
    /// must fail (the three documented reasons)
    Err(&'static str),
    /// a relative argument climbs above the root: documented error, but a clamped path is tolerated
    Climbs(String),
    /// outside what the reference defines (caller skips the comparison)
    Unspecified,
}

pub fn ref_trim_protocol(s: &str) -> String {
    let lower = s.to_ascii_lowercase();
    for scheme in ["file://", "ftp://", "http://", "https://"] {
        if lower.starts_with(scheme) {
            return s[scheme.len()..].to_string();
        }
    }
    s.to_string()
}

/// `expanded`: the argument after ~ / variable expansion (callers without expansion pass it through)
pub fn ref_abs_expanded(cwd: &str, expanded: &str) -> AbsR {
    if expanded.is_empty() {
        return AbsR::Err("Empty");
    }
    let s = ref_trim_protocol(expanded);
    if s.starts_with('/') {
        return AbsR::Ok(go_clean(&s));
    }
    let c = go_clean(&s); // "." | "a/b" | "../../a"
    let ups = c.split('/').take_while(|x| *x == "..").count();
    let depth = if cwd == "/" { 0 } else { cwd.matches('/').count() };
    let joined = go_clean(&format!("{}/{}", cwd, c));
    if ups > depth {
        AbsR::Climbs(joined)
    } else {
        AbsR::Ok(joined)
    }
}

/// Resolution for arguments without '~' and '$' (everything the state-space alphabets use)
pub fn ref_abs(cwd: &str, arg: &str) -> AbsR {
    if arg.contains('~') || arg.contains('$') {
        return AbsR::Unspecified;
    }
    ref_abs_expanded(cwd, arg)
}
